/-
Spec (oracle) for C01 / C06 on the legacy layout, written from the PROPERTY
TEXT and the public documentation, not from the C++:

  `normalize s x = some y`  — the library must accept `x`, and a new snapshot
                              must be exactly `y`;
  `normalize s x = none`    — the library must reject `x` with an exception.

Normalisations (all named in the property): cue and loop lists padded to eight
slots; durations and timestamps at whole-second resolution (toward zero);
ratings clamped to 0..100; the documented sentinels (±0.0 = no average
loudness / main cue / sample rate, 0 = no sample count, offset −1.0 = empty cue
or loop slot); what a version cannot represent (`file_bytes` before 1.15.0).
One representation detail: `-0.0` and `+0.0` are the same BPM (the snapshot's
`operator==` cannot tell them apart); the canonical form is `+0.0`.

Rejected: no relative path; more than eight cues or loops; a cue/loop label that
is empty or longer than 255 bytes; a beat grid that the 1.x format cannot hold
(exactly one marker, more than 32768, indices or offsets not strictly
increasing, an index gap beyond 2^31−1); a waveform without a (non-zero) sample
count and sample rate.
-/
import EngineModel.TracksV1.Types

namespace EngineModel
namespace TracksV1
namespace Spec

open Impl.V1 (GMarker HotCue LoopV Entry)

/-- ±0.0 means "absent". -/
def dropZero (x : Option Bits) : Option Bits :=
  match x with
  | some v => if v = F64.zero ∨ v = F64.negZero then none else some v
  | none => none

/-- Round a signed 64-bit count toward zero to a multiple of `unit`. -/
def wholeUnits (unit : Nat) (x : UInt64) : UInt64 :=
  let v := Prim.s64 x
  let q : Int := (v.natAbs / unit : Nat)
  Prim.u64OfInt ((if v < 0 then -q else q) * unit)

def clamp100 (r : UInt32) : UInt32 :=
  let v := Prim.s32 r
  if v < 0 then 0 else if v > 100 then 100 else r

def labelOk (l : Bytes) : Bool := decide (1 ≤ l.length ∧ l.length ≤ 255)

def cueOk : Option HotCue → Bool
  | none => true
  | some q => labelOk q.label
def loopOk : Option LoopV → Bool
  | none => true
  | some l => labelOk l.label

/-- Offset exactly −1.0 marks an empty slot. -/
def normCue : Option HotCue → Option HotCue
  | some q => if q.off = F64.negOne then none else some q
  | none => none
def normLoop : Option LoopV → Option LoopV
  | some l => if l.start = F64.negOne then none else some l
  | none => none

def pad8 {α} (l : List (Option α)) : List (Option α) := l ++ List.replicate (8 - l.length) none

/-- Consecutive markers strictly increase in index (by at most 2^31−1) and in offset. -/
def stepOk (a b : GMarker) : Bool :=
  decide (Prim.s32 a.index < Prim.s32 b.index) &&
  decide (Prim.s32 b.index - Prim.s32 a.index ≤ 2147483647) && F64.lt a.off b.off

def gridOk (g : List GMarker) : Bool :=
  g.isEmpty || (decide (2 ≤ g.length ∧ g.length ≤ 32768) && (g.zip g.tail).all fun p => stepOk p.1 p.2)

def present (x : Option Bits) : Bool := (dropZero x).isSome

/-- The snapshots the library has to accept. -/
def accepted (x : Snap) : Bool :=
  x.relativePath.isSome &&
  decide (x.hotCues.length ≤ 8) && x.hotCues.all cueOk &&
  decide (x.loops.length ≤ 8) && x.loops.all loopOk &&
  gridOk x.beatgrid &&
  (x.waveform.isEmpty || (present x.sampleRate && (x.sampleCount.any fun n => n ≠ 0)))

def normFields (s : Schema) (x : Snap) : Snap :=
  { x with
    averageLoudness := dropZero x.averageLoudness
    bpm := x.bpm.map fun b => if b = F64.negZero then F64.zero else b
    duration := x.duration.map (wholeUnits 1000)
    fileBytes := if s.ge .s1_15_0 then x.fileBytes else none
    hotCues := pad8 (x.hotCues.map normCue)
    lastPlayedAt := x.lastPlayedAt.map (wholeUnits 1000000000)
    loops := pad8 (x.loops.map normLoop)
    mainCue := dropZero x.mainCue
    rating := x.rating.map clamp100
    sampleCount := x.sampleCount.bind fun n => if n = 0 then none else some n
    sampleRate := dropZero x.sampleRate }

def normalize (s : Schema) (x : Snap) : Option Snap :=
  if accepted x then some (normFields s x) else none

/-- "Arbitrary finite doubles": no NaN anywhere (NaN is outside the quantifier of C01). -/
def optFinite (x : Option Bits) : Bool := x.all fun v => !F64.isNaN v
def NoNaN (x : Snap) : Bool :=
  optFinite x.averageLoudness && optFinite x.bpm && optFinite x.mainCue && optFinite x.sampleRate &&
  x.beatgrid.all (fun m => !F64.isNaN m.off) &&
  x.hotCues.all (fun q => q.all fun c => !F64.isNaN c.off) &&
  x.loops.all (fun q => q.all fun l => !F64.isNaN l.start && !F64.isNaN l.stop)

/-- Every field already in the form the schema stores (so nothing may change). -/
def Representable (s : Schema) (x : Snap) : Bool :=
  (dropZero x.averageLoudness == x.averageLoudness) &&
  (x.bpm.all fun b => b ≠ F64.negZero) &&
  (x.duration.all fun d => wholeUnits 1000 d == d) &&
  (s.ge .s1_15_0 || x.fileBytes.isNone) &&
  decide (x.hotCues.length = 8) && (x.hotCues.all fun q => normCue q == q) &&
  (x.lastPlayedAt.all fun t => wholeUnits 1000000000 t == t) &&
  decide (x.loops.length = 8) && (x.loops.all fun q => normLoop q == q) &&
  (dropZero x.mainCue == x.mainCue) &&
  (x.rating.all fun r => clamp100 r == r) &&
  (x.sampleCount.all fun n => n ≠ 0) &&
  (dropZero x.sampleRate == x.sampleRate)

/-! ### NaN (outside the quantifier of C01): what the 1.x library does, for the record

A NaN is an ordinary bit pattern for every 1.x blob and survives bit for bit; the two places where it
matters are the BPM (the `bpmAnalyzed` column has REAL affinity: SQLite stores NaN as NULL, the track
then has no BPM) and the beat grid (`validate_beatgrid` tests `!(next <= prev)`, which a NaN offset
passes, where the Spec's `gridOk` tests `prev < next`). -/

/-- `accepted` with the library's own grid test. -/
def libAccepted (x : Snap) : Bool :=
  x.relativePath.isSome &&
  decide (x.hotCues.length ≤ 8) && x.hotCues.all cueOk &&
  decide (x.loops.length ≤ 8) && x.loops.all loopOk &&
  Impl.V1.validGrid x.beatgrid &&
  (x.waveform.isEmpty || (present x.sampleRate && (x.sampleCount.any fun n => n ≠ 0)))

def dropNaN (x : Option Bits) : Option Bits := x.bind fun b => if F64.isNaN b then none else some b

def normFieldsNaN (s : Schema) (x : Snap) : Snap :=
  { normFields s x with bpm := dropNaN (normFields s x).bpm }

/-- `normalize` extended to every snapshot, NaN included (equal to `normalize` on `NoNaN` snapshots). -/
def normalizeNaN (s : Schema) (x : Snap) : Option Snap :=
  if libAccepted x then some (normFieldsNaN s x) else none

/-! ### C06: the same normalisation, field by field -/

def normStr (v : Option Bytes) : Option Bytes := v

end Spec
end TracksV1
end EngineModel
