/-
Schema 1.x tracks: the values that cross the public API (`track_snapshot`),
the rows the library keeps for one track in the four legacy tables
(Track, MetaData, MetaDataInteger, PerformanceData), and small helpers.

C++ fixed-width integers are carried as bit patterns (`UInt32` = `int`,
`UInt64` = `int64_t` / `unsigned long long` / a double's bits), SQL INTEGER
cells as `Int`, strings as byte lists.  PerformanceData blob columns hold the
*decoded logical value* of the codec (the byte layer is C02–C05's business).
-/
import EngineModel.Basic.F64
import EngineModel.Basic.Prim
import EngineModel.Basic.Res
import EngineModel.Impl.V1

namespace EngineModel
namespace TracksV1

open Impl.V1 (GMarker HotCue LoopV Entry Wave Beat Cues Loops)

abbrev Bits := F64.Bits

/-! ### schema versions of the legacy layout -/

inductive Schema where
  | s1_6_0 | s1_7_1 | s1_9_1 | s1_11_1 | s1_13_0 | s1_13_1 | s1_13_2 | s1_15_0 | s1_17_0
  | s1_18_0_desktop | s1_18_0_os
  deriving DecidableEq, Repr, Inhabited

namespace Schema

def all : List Schema :=
  [s1_6_0, s1_7_1, s1_9_1, s1_11_1, s1_13_0, s1_13_1, s1_13_2, s1_15_0, s1_17_0, s1_18_0_desktop,
   s1_18_0_os]

/-- Enumerator order (`operator>=` on `engine_schema`). -/
def ord : Schema → Nat
  | s1_6_0 => 0 | s1_7_1 => 1 | s1_9_1 => 2 | s1_11_1 => 3 | s1_13_0 => 4 | s1_13_1 => 5
  | s1_13_2 => 6 | s1_15_0 => 7 | s1_17_0 => 8 | s1_18_0_desktop => 9 | s1_18_0_os => 10

def name : Schema → String
  | s1_6_0 => "schema_1_6_0" | s1_7_1 => "schema_1_7_1" | s1_9_1 => "schema_1_9_1"
  | s1_11_1 => "schema_1_11_1" | s1_13_0 => "schema_1_13_0" | s1_13_1 => "schema_1_13_1"
  | s1_13_2 => "schema_1_13_2" | s1_15_0 => "schema_1_15_0" | s1_17_0 => "schema_1_17_0"
  | s1_18_0_desktop => "schema_1_18_0_desktop" | s1_18_0_os => "schema_1_18_0_os"

def ofName (n : String) : Option Schema := all.find? (fun x => x.name == n)

/-- `schema >= t`. -/
def ge (s t : Schema) : Bool := decide (t.ord ≤ s.ord)

theorem all_complete (s : Schema) : s ∈ all := by cases s <;> decide

end Schema

/-! ### the public snapshot (25 fields, in the order of `track_snapshot`) -/

structure Snap where
  album : Option Bytes
  artist : Option Bytes
  averageLoudness : Option Bits
  beatgrid : List GMarker
  bitrate : Option UInt32          -- int
  bpm : Option Bits
  comment : Option Bytes
  composer : Option Bytes
  duration : Option UInt64         -- milliseconds::rep (int64)
  fileBytes : Option UInt64        -- unsigned long long
  genre : Option Bytes
  hotCues : List (Option HotCue)
  key : Option UInt32              -- musical_key (int)
  lastPlayedAt : Option UInt64     -- system_clock ticks (ns, int64)
  loops : List (Option LoopV)
  mainCue : Option Bits
  publisher : Option Bytes
  rating : Option UInt32           -- int
  relativePath : Option Bytes
  sampleCount : Option UInt64      -- unsigned long long
  sampleRate : Option Bits
  title : Option Bytes
  trackNumber : Option UInt32      -- int
  waveform : List Entry
  year : Option UInt32             -- int
  deriving Repr, DecidableEq, Inhabited

def Snap.empty : Snap :=
  ⟨none, none, none, [], none, none, none, none, none, none, none, [], none, none, [], none, none, none,
   none, none, none, none, none, [], none⟩

/-! ### rows -/

/-- The `Track` row of one track (columns of every 1.x version; a column that a
version does not have stays `none` and is never read or printed for it). -/
structure TrackRow where
  playOrder : Option Int
  length : Option Int
  lengthCalculated : Option Int
  bpm : Option Int
  year : Option Int
  path : Option Bytes
  filename : Option Bytes
  bitrate : Option Int
  bpmAnalyzed : Option Bits
  trackType : Option Int
  isExternalTrack : Option Int
  uuidOfExternalDatabase : Option Bytes
  idTrackInExternalDatabase : Option Int
  idAlbumArt : Option Int
  fileBytes : Option Int           -- ≥ 1.15.0
  pdbImportKey : Option Int        -- ≥ 1.7.1
  uri : Option Bytes               -- ≥ 1.15.0
  isBeatGridLocked : Option Int    -- ≥ 1.18.0
  deriving Repr, DecidableEq, Inhabited

def TrackRow.blank : TrackRow :=
  ⟨none, none, none, none, none, none, none, none, none, none, none, none, none, none, none, none, none, none⟩

/-- The `PerformanceData` row of one track. -/
structure PerfRow where
  isAnalyzed : Int
  isRendered : Int
  trackData : Impl.V1.Track
  hires : Wave
  overview : Wave
  beat : Beat
  cues : Cues
  loops : Loops
  hasSerato : Option Int
  hasRekordbox : Option Int        -- ≥ 1.7.1
  hasTraktor : Option Int          -- ≥ 1.11.1
  deriving Repr, DecidableEq, Inhabited

/-- Everything the four tables hold about one track.  `mstr` / `mint` are the
rows `(type, text)` / `(type, value)` of this id (primary key `(id, type)`, so
at most one row per type; a row may exist with a NULL cell). -/
structure TrackRows where
  track : TrackRow
  mstr : List (Int × Option Bytes)
  mint : List (Int × Option Int)
  perf : Option PerfRow
  deriving Repr, DecidableEq, Inhabited

/-! ### association lists with primary-key semantics -/

section AList
variable {β : Type}

/-- `INSERT OR REPLACE` of one row keyed by `k`. -/
def aset (k : Int) (v : β) : List (Int × β) → List (Int × β)
  | [] => [(k, v)]
  | (k', v') :: r => if k' = k then (k, v) :: r else (k', v') :: aset k v r

/-- `SELECT … WHERE type = k`. -/
def aget (k : Int) : List (Int × β) → Option β
  | [] => none
  | (k', v') :: r => if k' = k then some v' else aget k r

@[simp] theorem aget_nil (k : Int) : aget k ([] : List (Int × β)) = none := rfl

theorem aget_aset_same (k : Int) (v : β) (l : List (Int × β)) : aget k (aset k v l) = some v := by
  induction l with
  | nil => simp [aset, aget]
  | cons h t ih =>
    obtain ⟨k', v'⟩ := h
    by_cases hk : k' = k
    · simp [aset, aget, hk]
    · simp [aset, aget, hk, ih]

theorem aget_aset_other (k k2 : Int) (v : β) (l : List (Int × β)) (h : k2 ≠ k) :
    aget k2 (aset k v l) = aget k2 l := by
  induction l with
  | nil =>
    have : ¬ k = k2 := fun e => h e.symm
    simp [aset, aget, this]
  | cons hd t ih =>
    obtain ⟨k', v'⟩ := hd
    by_cases hk : k' = k
    · have : ¬ k = k2 := fun e => h e.symm
      have h2 : ¬ k' = k2 := by rw [hk]; exact this
      simp [aset, aget, hk, this]
    · by_cases hk2 : k' = k2
      · subst hk2
        simp [aset, hk, aget]
      · simp [aset, hk, aget, hk2, ih]

/-- Several rows written by one multi-row `INSERT OR REPLACE`, left to right. -/
def asetMany (kvs : List (Int × β)) (l : List (Int × β)) : List (Int × β) :=
  kvs.foldl (fun acc kv => aset kv.1 kv.2 acc) l

end AList

/-! ### text helpers -/

def strBytes (s : String) : Bytes := s.toUTF8.toList

/-- `oss << std::setw(2) << std::setfill('0') << i` (right-adjusted). -/
def pad2 (i : Int) : Bytes :=
  let s := strBytes (toString i)
  if s.length < 2 then List.replicate (2 - s.length) 48 ++ s else s

/-- `std::string::rfind(c)`: index of the last occurrence. -/
def rfind (c : UInt8) (s : Bytes) : Option Nat :=
  let rec go : Bytes → Nat → Option Nat → Option Nat
    | [], _, acc => acc
    | x :: r, i, acc => go r (i + 1) (if x = c then some i else acc)
  go s 0 none

/-- `util::get_filename`. -/
def getFilename (p : Bytes) : Bytes :=
  match rfind 47 p with
  | some i => p.drop (i + 1)
  | none => p

/-- `util::get_file_extension` (of the file name part). -/
def getExtension (p : Bytes) : Option Bytes :=
  let f := getFilename p
  match rfind 46 f with
  | some i => some (f.drop (i + 1))
  | none => none

end TracksV1
end EngineModel
