/-
Model of `information_table` (src/djinterop/engine/v2/information_table.cpp) over
the Information table of the 2.x schemas: the single row the schema creator
stores (`uuid`, the schema version triple, a random current-played indicator,
`lastRekordBoxLibraryImportReadCounter = 0`),

  get()                               `SELECT … FROM Information` into `information_row`
  update_current_played_indicator(v)  `UPDATE Information SET currentPlayedIndiciator = ?`

with the SELECT binding table and the updated column taken from
`Gen/Bindings.lean` (regenerated from the source on every run).  Reachable
states hold exactly one row (nothing in the API inserts or deletes one), so the
state is that row.
-/
import EngineModel.Table.Store
import EngineModel.Table.Names
import EngineModel.Gen.Bindings

namespace EngineModel
namespace Table

structure IStmts where
  sel : List (RB ICol IField)
  setCpi : ICol

def genIStmts : IStmts := ⟨Gen.Bindings.infoSelect, Gen.Bindings.infoSetCpi⟩

/-- The row the schema creator of version `s` stores (uuid and indicator are random: inputs). -/
def infoRow (s : Schema2) (uuid : Val) (cpi : Int) : Raw ICol := fun c =>
  match c with
  | .id => .int 1
  | .uuid => uuid
  | .schemaVersionMajor => .int s.version.1
  | .schemaVersionMinor => .int s.version.2.1
  | .schemaVersionPatch => .int s.version.2.2
  | .currentPlayedIndiciator => .int cpi
  | .lastRekordBoxLibraryImportReadCounter => .int 0

/-- `information_table::get` -/
def iGet (st : IStmts) (raw : Raw ICol) : Res (Row IField) := readRow raw st.sel

/-- `information_table::update_current_played_indicator` (no WHERE: every row, i.e. the row). -/
def iSetCpi (st : IStmts) (raw : Raw ICol) (v : Int) : Raw ICol := setCol raw st.setCpi (.int v)

/-- **Spec.** The row `get` must return on the created library. -/
def normInfo (s : Schema2) (uuid : Bytes) (cpi : Int) : Row IField := fun f =>
  match f with
  | .id => .int 1
  | .uuid => .str uuid
  | .schema_version_major => .int s.version.1
  | .schema_version_minor => .int s.version.2.1
  | .schema_version_patch => .int s.version.2.2
  | .current_played_indicator => .int cpi
  | .last_rekord_box_library_import_read_counter => .int 0

/-- **Spec.** `update_current_played_indicator(v)` changes that member only. -/
def normInfoSet (v : Int) (g : Row IField) : Row IField := fun f =>
  if f = .current_played_indicator then .int v else g f

/-- Alignment of the Information statements with the Spec (decidable). -/
def alignedI (st : IStmts) : Bool :=
  decide (Gen.Bindings.infoFields = IField.all.map (fun f => (f, f.ty)))
  && alignedR iSpec (fun _ => true) st.sel
  && decide (st.setCpi = IField.current_played_indicator.col)

end Table
end EngineModel
