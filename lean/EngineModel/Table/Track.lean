/-
Model of `track_table` (src/djinterop/engine/v2/track_table.cpp) over the Track
table of the 2.x schemas (schema_2_18_0.cpp … schema_2_21_2.cpp):

  add / get / update / remove / exists / all_ids / find_id_by_path and the
  per-column get_* / set_* pairs,

each as the SQL statement it issues, under the constraints and triggers of the
schema creators:

  UNIQUE (path), UNIQUE (originDatabaseUuid, originTrackId);
  trigger_after_insert_Track_fix_origin / trigger_after_update_Track_fix_origin;
  trigger_after_update_Track_timestamp (since 2.20.3; `UPDATE OF` the columns
  of `tsCols`, `lastEditTime = strftime('%s')`);
  AUTOINCREMENT (a failed INSERT is rolled back together with its sequence).

The statements themselves are *parameters* (`TStmts`): the binding tables of
`Gen/Bindings.lean`, regenerated from the C++ source on every run, are plugged
in by `genStmts`.

Not observable through this API and left out: the ChangeLog row written by
trigger_after_update_Track (schemas before 2.20.3), the foreign keys (never
enforced: the library does not enable them), the PerformanceData view.
-/
import EngineModel.Table.Store
import EngineModel.Table.Names
import EngineModel.Gen.Bindings

namespace EngineModel
namespace Table

/-- The statements of `track_table` on one schema version. -/
structure TStmts where
  ins : List (WB TCol TField)
  upd : List (WB TCol TField)
  sel : List (RB TCol TField)
  getters : List (Acc TCol TField Schema2)
  setters : List (Acc TCol TField Schema2)
  removeChecks : Bool

/-- The statements the current source issues on schema `s`. -/
def genStmts (s : Schema2) : Option TStmts :=
  match pickBranch s Gen.Bindings.trackInsert, pickBranch s Gen.Bindings.trackUpdate,
        pickBranch s Gen.Bindings.trackSelect with
  | some i, some u, some q =>
    some ⟨i, u, q, Gen.Bindings.trackGetters, Gen.Bindings.trackSetters, Gen.Bindings.trackRemoveChecks⟩
  | _, _, _ => none

/-- State: the Track table, its AUTOINCREMENT counter, what
`(SELECT uuid FROM Information)` answers, and what `strftime('%s')` answers. -/
structure TDb where
  rows : Rows TCol
  seq : Int
  uuid : Val
  clock : Int

def TDb.empty : TDb := ⟨[], 0, .null, 0⟩

/-! ## constraints and triggers of the schema -/

/-- `new` does not collide with another row on UNIQUE (path) or
UNIQUE (originDatabaseUuid, originTrackId). -/
def tUnique (rows : Rows TCol) (new : Raw TCol) : Bool :=
  rows.all fun r =>
    rowId .id r == rowId .id new ||
    !(sameNN (r .path) (new .path) ||
      (sameNN (r .originDatabaseUuid) (new .originDatabaseUuid) &&
       sameNN (r .originTrackId) (new .originTrackId)))

/-- `WHEN IFNULL(NEW.originTrackId, 0) = 0 OR IFNULL(NEW.originDatabaseUuid, '') = ''` -/
def needsFix (raw : Raw TCol) : Bool :=
  isZeroOrNull (raw .originTrackId) || isEmptyOrNull (raw .originDatabaseUuid)

/-- `UPDATE Track SET originTrackId = NEW.id, originDatabaseUuid = (SELECT uuid FROM Information)` -/
def fixOrigin (uuid : Val) (raw : Raw TCol) : Raw TCol :=
  setCol (setCol raw .originTrackId (.int (rowId .id raw))) .originDatabaseUuid uuid

def applyFix (uuid : Val) (raw : Raw TCol) : Raw TCol :=
  if needsFix raw then fixOrigin uuid raw else raw

/-- Columns named by `AFTER UPDATE OF …` of trigger_after_update_Track_timestamp. -/
def tsCols : List TCol :=
  [.length, .bpm, .year, .filename, .bitrate, .bpmAnalyzed, .albumArtId, .title, .artist, .album,
   .genre, .comment, .label, .composer, .remixer, .key, .rating, .albumArt, .fileType, .isAnalyzed,
   .isBeatGridLocked, .trackData, .overviewWaveFormData, .beatData, .quickCues, .loops,
   .explicitLyrics, .activeOnLoadLoops]

/-- Does an UPDATE naming `cols` fire the timestamp trigger on schema `s`? -/
def stamps (s : Schema2) (cols : List TCol) : Bool :=
  s.ge .s2_20_3 && cols.any (fun c => tsCols.contains c)

/-- `UPDATE Track SET lastEditTime = strftime('%s') WHERE ROWID = NEW.ROWID`, when it fires. -/
def stampRow : Option Int → Raw TCol → Raw TCol
  | none, raw => raw
  | some t, raw => setCol raw .lastEditTime (.int t)

def stampOf (s : Schema2) (clock : Int) (cols : List TCol) : Option Int :=
  if stamps s cols then some clock else none

/-- The AFTER UPDATE triggers on the updated row. -/
def afterUpdate (s : Schema2) (d : TDb) (cols : List TCol) (raw : Raw TCol) : Raw TCol :=
  stampRow (stampOf s d.clock cols) (applyFix d.uuid raw)

/-- `INSERT INTO Track (cols) VALUES (?…)` -/
def tInsert (d : TDb) (params : List (TCol × Val)) : TDb × Res Int :=
  let i := d.seq + 1
  let raw0 := assign (setCol nullRaw .id (.int i)) params
  if !tUnique d.rows raw0 then (d, .throw .sqlite_error) else
  let raw1 := applyFix d.uuid raw0
  if !tUnique d.rows raw1 then (d, .throw .sqlite_error) else
  ({ d with rows := d.rows ++ [raw1], seq := i }, .ok i)

/-- `UPDATE Track SET col = ?, … WHERE id = ?`; answers `rows_modified()`. -/
def tUpdateWhereId (s : Schema2) (d : TDb) (i : Int) (params : List (TCol × Val)) : TDb × Res Nat :=
  match findRow .id d.rows i with
  | none => (d, .ok 0)
  | some old =>
    let raw0 := assign old params
    if !tUnique d.rows raw0 then (d, .throw .sqlite_error) else
    let raw1 := afterUpdate s d (params.map (·.1)) raw0
    if !tUnique d.rows raw1 then (d, .throw .sqlite_error) else
    ({ d with rows := updRow .id d.rows i (fun _ => raw1) }, .ok 1)

/-! ## track_table -/

/-- `track_table::add` -/
def tAdd (st : TStmts) (d : TDb) (r : Row TField) : TDb × Res Int :=
  if r .id ≠ .int 0 then (d, .throw .runtime_error) else   -- track_row_id_error
  match evalParams r st.ins with
  | .throw e => (d, .throw e)
  | .ub u => (d, .ub u)
  | .ok l => tInsert d l

/-- `track_table::get` -/
def tGet (st : TStmts) (d : TDb) (i : Int) : Res (Option (Row TField)) :=
  match findRow .id d.rows i with
  | none => .ok none
  | some raw =>
    match readRow raw st.sel with
    | .ok g => .ok (some g)
    | .throw e => .throw e
    | .ub u => .ub u

/-- `track_table::update` (rows_modified() is not consulted: a row id with no
row is not an error here). -/
def tUpdate (s : Schema2) (st : TStmts) (d : TDb) (r : Row TField) : TDb × Res Unit :=
  if r .id = .int 0 then (d, .throw .runtime_error) else   -- track_row_id_error
  match evalParams r st.upd with
  | .throw e => (d, .throw e)
  | .ub u => (d, .ub u)
  | .ok l =>
    match r .id with
    | .int i =>
      match tUpdateWhereId s d i l with
      | (d', .ok _) => (d', .ok ())
      | (d', .throw e) => (d', .throw e)
      | (d', .ub u) => (d', .ub u)
    | _ => (d, .throw .logic_error)     -- the id member is an int64_t

/-- `track_table::remove` -/
def tRemove (st : TStmts) (d : TDb) (i : Int) : TDb × Res Unit :=
  match findRow .id d.rows i with
  | none => if st.removeChecks then (d, .throw .invalid_argument) else (d, .ok ())
  | some _ => ({ d with rows := delRow .id d.rows i }, .ok ())

def tExists (d : TDb) (i : Int) : Bool := (findRow .id d.rows i).isSome
def tIds (d : TDb) : List Int := rowIds .id d.rows
/-- `track_table::find_id_by_path` (the callback keeps the last match). -/
def tFindByPath (d : TDb) (p : Bytes) : Option Int :=
  ((d.rows.filter (fun r => r .path == .text p)).getLast?).map (rowId .id)

/-- `if (schema < X) throw unsupported_operation` -/
def guardFails (s : Schema2) : Option Schema2 → Bool
  | none => false
  | some m => !s.ge m

def findAcc (l : List (Acc TCol TField Schema2)) (f : TField) : Option (Acc TCol TField Schema2) :=
  l.find? (fun a => a.field == f)

/-- `track_table::get_<member>` -/
def tGetc (s : Schema2) (st : TStmts) (d : TDb) (f : TField) (i : Int) : Res FVal :=
  match findAcc st.getters f with
  | none => .throw .logic_error          -- no such accessor
  | some a =>
    if guardFails s a.minSchema then .throw (.dj "unsupported_operation") else
    match findRow .id d.rows i with
    | none => .throw .runtime_error      -- track_row_id_error
    | some raw => rconv a.ty.pty a.ty.rconv (raw a.col)

/-- `track_table::set_<member>` -/
def tSetc (s : Schema2) (st : TStmts) (d : TDb) (f : TField) (i : Int) (v : FVal) : TDb × Res Unit :=
  match findAcc st.setters f with
  | none => (d, .throw .logic_error)
  | some a =>
    if guardFails s a.minSchema then (d, .throw (.dj "unsupported_operation")) else
    match wconv a.ty.wconv v with
    | .throw e => (d, .throw e)
    | .ub u => (d, .ub u)
    | .ok x =>
      match tUpdateWhereId s d i [(a.col, x)] with
      | (d', .ok n) => if n > 0 then (d', .ok ()) else (d', .throw .runtime_error)  -- track_row_id_error
      | (d', .throw e) => (d', .throw e)
      | (d', .ub u) => (d', .ub u)

/-! ## well-formed states -/

/-- The origin columns hold what the API and the triggers put there: an integer
(or NULL) and a text (or NULL). -/
def originTyped (raw : Raw TCol) : Bool :=
  (match raw .originTrackId with | .null | .int _ => true | _ => false) &&
  (match raw .originDatabaseUuid with | .null | .text _ => true | _ => false)

def uuidTyped : Val → Bool
  | .null | .text _ => true
  | _ => false

/-- Every column of the row holds what the API and the triggers can have put
there (`colTyped`): in particular every timestamp column is within the range
`to_time_point` converts without overflow and every blob column holds a blob of
its own kind — which is what makes `get` defined on the row. -/
def rowTypedT (raw : Raw TCol) : Bool := TField.all.all (fun f => colTyped f.ty (raw f.col))

/-- Invariant of every state reachable through the API: row ids are bounded by
the AUTOINCREMENT counter, the origin columns and Information.uuid are typed,
every column of every row is typed (timestamp ranges, blob kinds), and what
`strftime('%s')` answers is a representable time point (clock before 2262). -/
structure TDb.Wf (d : TDb) : Prop where
  ids : idsBelow .id d.rows d.seq
  typed : ∀ r ∈ d.rows, originTyped r = true
  uuid : uuidTyped d.uuid = true
  cols : ∀ r ∈ d.rows, rowTypedT r = true
  clk : in64 (d.clock * 1000000000) = true

/-! ## one step of a history -/

inductive TOp where
  | add (r : Row TField)
  | update (r : Row TField)
  | remove (i : Int)
  | setc (f : TField) (i : Int) (v : FVal)

def tStep (s : Schema2) (st : TStmts) (d : TDb) : TOp → TDb
  | .add r => (tAdd st d r).1
  | .update r => (tUpdate s st d r).1
  | .remove i => (tRemove st d i).1
  | .setc f i v => (tSetc s st d f i v).1

def tRun (s : Schema2) (st : TStmts) (d : TDb) : List TOp → TDb
  | [] => d
  | op :: ops => tRun s st (tStep s st d op) ops

/-! ## Spec: what the property demands of a read-back row -/

/-- What a member the schema has no column for reads as. -/
def absentVal : FTy → FVal
  | .time | .timeText => .time 0
  | _ => .oint none

/-- The origin pair is (re)assigned by the database when the written row leaves
it unset. -/
def originUnset (r : Row TField) : Bool :=
  r .origin_track_id == .int 0 || r .origin_database_uuid == .str []

/-- **Spec.** The row `get` must return after `add r` assigned id `i` (or after
`update r` with `i = r.id`): every member as written up to the normal form of
its type (`normV`), the id assigned, members the schema has no column for at
their documented constants, and the database-maintained columns: the origin
pair when left unset, `lastEdit` when the database stamps it. -/
def normRowT (s : Schema2) (uuid : Val) (lastEdit : Option Int) (i : Int) (r : Row TField) : Row TField :=
  fun f =>
    match f with
    | .id => .int i
    | .origin_track_id => if originUnset r then .int i else r f
    | .origin_database_uuid => if originUnset r then .str (readStr uuid) else r f
    | .last_edit_time =>
      if f.present s then
        match lastEdit with
        | some t => .time (t * 1000000000)
        | none => normV f.ty (r f)
      else absentVal f.ty
    | f => if f.present s then normV f.ty (r f) else absentVal f.ty

/-- Every member of the row has its declared C++ type. -/
def wtRowT (r : Row TField) : Prop := ∀ f, wtv f.ty (r f) = true

/-- The operation's arguments have their declared C++ types. -/
def wtOp : TOp → Prop
  | .add r => wtRowT r
  | .update r => wtRowT r
  | .remove _ => True
  | .setc f _ v => f ≠ .id ∧ wtv f.accTy v = true

/-- What the accessor pair of a member exchanges for the member value `v`
(the two creation dates travel as optional time points). -/
def toAcc (f : TField) (v : FVal) : FVal :=
  match f.accTy, f.ty, v with
  | .otime, .time, .time ns => .otime (some ns)
  | _, _, v => v

/-- The member value an accessor value stands for (an absent creation date is
stored as NULL, which the row reads as the epoch). -/
def fromAcc (f : TField) (v : FVal) : FVal :=
  match f.accTy, f.ty, v with
  | .otime, .time, .otime (some ns) => .time ns
  | .otime, .time, .otime none => .time 0
  | _, _, v => v

/-- Does the database stamp `lastEditTime` when the column of member `f` is set? -/
def stampsField (s : Schema2) (f : TField) : Bool := stamps s [f.col]

/-- Member `f` replaced by what the accessor value `v` denotes, in normal form. -/
def setMember (f : TField) (v : FVal) (r0 : Row TField) : Row TField :=
  fun g => if g = f then normV f.ty (fromAcc f v) else r0 g

/-- The origin fix-up on a typed row. -/
def fixRowT (uuid : Val) (r : Row TField) : Row TField := fun g =>
  match g with
  | .origin_track_id => if originUnset r then r .id else r g
  | .origin_database_uuid => if originUnset r then .str (readStr uuid) else r g
  | g => r g

/-- The last-edit stamp on a typed row. -/
def stampRowT (t : Option Int) (r : Row TField) : Row TField := fun g =>
  match g with
  | .last_edit_time =>
    match t with
    | some t => .time (t * 1000000000)
    | none => r g
  | g => r g

/-- **Spec.** The row `get` must return after `set_<f>(id, v)` on a row that read
`r0`: member `f` holds `v` (in normal form), every other member is unchanged,
except the database-maintained ones: the origin pair if the setter left it
unset, the last-edit time if the schema stamps this column. -/
def normSetT (s : Schema2) (uuid : Val) (clock : Int) (f : TField) (v : FVal) (r0 : Row TField) : Row TField :=
  stampRowT (if stampsField s f then some clock else none) (fixRowT uuid (setMember f v r0))

/-! ## alignment of the statements with the Spec (decidable) -/

def alignedAcc (l : List (Acc TCol TField Schema2)) : Bool :=
  decide (l.map (·.field) = TField.all.filter (fun f => decide (f ≠ .id)))
  && l.all (fun a => decide (a.col = a.field.col) && decide (a.ty = a.field.accTy)
      && decide (a.minSchema = a.field.accGuard))

def alignedT (s : Schema2) (st : TStmts) : Bool :=
  decide (Gen.Bindings.trackFields = TField.all.map (fun f => (f, f.ty)))
  && alignedW tSpec (TField.writable s) [] st.ins
  && alignedW tSpec (TField.writable s) [] st.upd
  && alignedR tSpec (TField.present s) st.sel
  && alignedAcc st.getters && alignedAcc st.setters
  && st.removeChecks

end Table
end EngineModel
