/-
Model of `playlist_table` and `playlist_entity_table`
(src/djinterop/engine/v2/playlist_table.cpp, playlist_entity_table.cpp) over the
Playlist and PlaylistEntity tables of the 2.x schemas (identical DDL, triggers
and views in all seven versions):

  Playlist:  UNIQUE (title, parentListId), UNIQUE (parentListId, nextListId);
             trigger_before_insert_List / trigger_after_insert_List (splice the
             new row before its successor), trigger_after_delete_List (close the
             gap, delete the children; not re-entrant: recursive_triggers is off),
             trigger_after_insert_isPersist / _update_isPersistParent /
             _update_isPersistChild over the recursive views PlaylistAllParent /
             PlaylistAllChildren (a parent cycle makes those views — and the
             statement — run forever: outcome `ub nontermination`);
  PlaylistEntity: UNIQUE (listId, databaseUuid, trackId);
             trigger_before_delete_PlaylistEntity (WHEN OLD.trackId > 0).

Statements are the list operations of Table/Store.lean; every C++ function is
mirrored statement by statement; a failing statement rolls the call back (each
call is one statement or one `sqlite_transaction`).  The INSERT / UPDATE /
SELECT statements of the row API are the binding tables of Gen/Bindings.lean.
-/
import EngineModel.Table.Store
import EngineModel.Table.Names
import EngineModel.Gen.Bindings

namespace EngineModel
namespace Table

/-- The statements of the two list tables. -/
structure LStmts where
  pIns : List (WB PCol PField)
  pSel : List (RB PCol PField)
  pUpdSimple : List (WB PCol PField)
  pUpdFull : List (WB PCol PField)
  pRemoveChecks : Bool
  eIns : List (WB ECol EField)
  eSel : List (RB ECol EField)
  eRemoveChecks : Bool
  /-- `get(list_id, track_id, database_uuid)` -/
  eSel3 : List (RB ECol EField)
  /-- the per-row callback of `get_for_list` -/
  eSelList : List (RB ECol EField)
  /-- `remove`: `DELETE … WHERE col = ? AND …` — (column, index of the bound parameter: 0 = list_id, 1 = entity_id) -/
  eRemoveWhere : List (ECol × Nat)

def genLStmts : LStmts :=
  { pIns := Gen.Bindings.playlistInsert, pSel := Gen.Bindings.playlistSelect,
    pUpdSimple := Gen.Bindings.playlistUpdateSimple, pUpdFull := Gen.Bindings.playlistUpdateFull,
    pRemoveChecks := Gen.Bindings.playlistRemoveChecks,
    eIns := Gen.Bindings.entityInsert, eSel := Gen.Bindings.entitySelect,
    eRemoveChecks := Gen.Bindings.entityRemoveChecks,
    eSel3 := Gen.Bindings.entitySelect3, eSelList := Gen.Bindings.entitySelectList,
    eRemoveWhere := Gen.Bindings.entityRemoveWhere }

structure LDb where
  pl : Rows PCol
  plSeq : Int
  pe : Rows ECol
  peSeq : Int

def LDb.empty : LDb := ⟨[], 0, [], 0⟩

/-! ## PlaylistEntity -/

/-- UNIQUE (listId, databaseUuid, trackId) among all rows. -/
def eUnique : Rows ECol → Bool
  | [] => true
  | r :: rs =>
    rs.all (fun q => !(sameNN (r .listId) (q .listId) && sameNN (r .databaseUuid) (q .databaseUuid)
      && sameNN (r .trackId) (q .trackId))) && eUnique rs

/-- Unsigned lexicographic order of byte strings (BINARY collation). -/
def bytesLt : Bytes → Bytes → Bool
  | [], [] => false
  | [], _ :: _ => true
  | _ :: _, [] => false
  | a :: x, b :: y => if a < b then true else if b < a then false else bytesLt x y

/-- The row a callback that overwrites its result is left with when SQLite walks
the (listId, databaseUuid, trackId) index: the match with the greatest uuid. -/
def lastByUuid : List (Raw ECol) → Option (Raw ECol)
  | [] => none
  | r :: rs =>
    match lastByUuid rs with
    | none => some r
    | some q => if bytesLt (readStr (q .databaseUuid)) (readStr (r .databaseUuid)) then some r else some q

/-- `trigger_before_delete_PlaylistEntity` followed by the deletion of row `old`. -/
def eDeleteRow (t : Rows ECol) (old : Raw ECol) : Rows ECol :=
  let t1 :=
    if decide (readInt (old .trackId) > 0) then
      updWhere t (fun r => r .nextEntityId == .int (rowId .id old) && r .listId == old .listId)
        (fun r => setCol r .nextEntityId (old .nextEntityId))
    else t
  delRow .id t1 (rowId .id old)

/-- `playlist_entity_table::add_back` -/
def eAddBack (st : LStmts) (d : LDb) (r : Row EField) (throwIfDup : Bool) : LDb × Res Int :=
  if r .id ≠ .int 0 then (d, .throw .runtime_error) else   -- playlist_entity_row_id_error
  match r .list_id, r .track_id, r .database_uuid with
  | .int l, .int t, .str u =>
    match lastByUuid (d.pe.filter (fun x => x .listId == .int l && x .trackId == .int t && x .databaseUuid == .text u)) with
    | some ex => if throwIfDup then (d, .throw .invalid_argument) else (d, .ok (rowId .id ex))
    | none =>
      match evalParams r st.eIns with
      | .throw e => (d, .throw e)
      | .ub ub => (d, .ub ub)
      | .ok ps =>
        let i := d.peSeq + 1
        let raw := assign (setCol nullRaw .id (.int i)) ps
        let t1 := d.pe ++ [raw]
        if !eUnique t1 then (d, .throw .sqlite_error) else
        let t2 := updWhere t1 (fun x => x .listId == .int l && x .nextEntityId == .int 0 && !(rowId .id x == i))
          (fun x => setCol x .nextEntityId (.int i))
        ({ d with pe := t2, peSeq := i }, .ok i)
  | _, _, _ => (d, .throw .logic_error)   -- members of other C++ types: not expressible

/-- `playlist_entity_table::get(list_id, track_id)` -/
def eGet (st : LStmts) (d : LDb) (l t : Int) : Res (Option (Row EField)) :=
  match lastByUuid (d.pe.filter (fun x => x .listId == .int l && x .trackId == .int t)) with
  | none => .ok none
  | some raw =>
    match readRow raw st.eSel with
    | .ok g => .ok (some g)
    | .throw e => .throw e
    | .ub u => .ub u

/-- `DELETE FROM PlaylistEntity WHERE <p>`: row by row (rowid order), under the trigger. -/
def eDeleteWhere (t : Rows ECol) (p : Raw ECol → Bool) : Rows ECol :=
  (t.filter p).foldl
    (fun acc old => match findRow .id acc (rowId .id old) with
      | some cur => eDeleteRow acc cur
      | none => acc) t

/-- Does the row satisfy `c₁ = ?₁ AND c₂ = ?₂ …` with the placeholders bound to
the function parameters `args` as the statement binds them? -/
def whereMatches (w : List (ECol × Nat)) (args : List Int) (raw : Raw ECol) : Bool :=
  w.all fun ck => match args[ck.2]? with
    | some a => raw ck.1 == .int a
    | none => false

/-- `playlist_entity_table::remove(list_id, entity_id)`: the translated `DELETE`,
then `rows_modified() == 0` is an error. -/
def eRemove (st : LStmts) (d : LDb) (l e : Int) : LDb × Res Unit :=
  if (d.pe.filter (whereMatches st.eRemoveWhere [l, e])).isEmpty then
    (if st.eRemoveChecks then (d, .throw .invalid_argument) else (d, .ok ()))
  else ({ d with pe := eDeleteWhere d.pe (whereMatches st.eRemoveWhere [l, e]) }, .ok ())

/-- `DELETE FROM PlaylistEntity WHERE listId = ?`: row by row, under the trigger. -/
def eClearRows (t : Rows ECol) (l : Int) : Rows ECol := eDeleteWhere t (fun x => x .listId == .int l)

/-- `playlist_entity_table::clear` -/
def eClear (d : LDb) (l : Int) : LDb := { d with pe := eClearRows d.pe l }

/-- `playlist_entity_table::get(list_id, track_id, database_uuid)` -/
def eGet3 (st : LStmts) (d : LDb) (l t : Int) (u : Bytes) : Res (Option (Row EField)) :=
  match lastByUuid (d.pe.filter (fun x => x .listId == .int l && x .trackId == .int t && x .databaseUuid == .text u)) with
  | none => .ok none
  | some raw =>
    match readRow raw st.eSel3 with
    | .ok g => .ok (some g)
    | .throw e => .throw e
    | .ub ub => .ub ub

/-- Run the per-row callback over the selected rows (the first failure ends the statement). -/
def readRows (sel : List (RB ECol EField)) : List (Raw ECol) → Res (List (Row EField))
  | [] => .ok []
  | raw :: rest =>
    match readRow raw sel with
    | .ok g =>
      match readRows sel rest with
      | .ok gs => .ok (g :: gs)
      | .throw e => .throw e
      | .ub u => .ub u
    | .throw e => .throw e
    | .ub u => .ub u

def entId (g : Row EField) : Int := match g .id with | .int i => i | _ => 0
def entNext (g : Row EField) : Int := match g .next_entity_id with | .int i => i | _ => 0

/-- `next_entity_id_map.find(key)`: the map was filled in row order with
`map[next_entity_id] = row`, so the last row with that key is the one kept. -/
def mapFind (rows : List (Row EField)) (key : Int) : Option (Row EField) :=
  (rows.filter (fun g => entNext g == key)).getLast?

/-- `do { id = curr->second.id; results.push_front(curr->second); curr = map.find(id); } while (curr != end)`
(at most one step per stored row: ids are distinct). -/
def walkBack (rows : List (Row EField)) : Nat → Row EField → List (Row EField) → List (Row EField)
  | 0, g, acc => g :: acc
  | n + 1, g, acc =>
    match mapFind rows (entId g) with
    | none => g :: acc
    | some g' => walkBack rows n g' (g :: acc)

/-- `playlist_entity_table::get_for_list`: rows of the list, re-ordered by walking
the `next_entity_id` chain back from the entity with no next entity.  With rows
but no such entity the code dereferences `end()` (the `assert` is compiled out). -/
def eGetForList (st : LStmts) (d : LDb) (l : Int) : Res (List (Row EField)) :=
  match readRows st.eSelList (d.pe.filter (fun x => x .listId == .int l)) with
  | .throw e => .throw e
  | .ub u => .ub u
  | .ok [] => .ok []
  | .ok rows =>
    match mapFind rows 0 with
    | none => .ub .oob_read
    | some tail => .ok (walkBack rows rows.length tail [])

/-- `playlist_entity_table::track_ids` -/
def eTrackIds (st : LStmts) (d : LDb) (l : Int) : Res (List Int) :=
  (eGetForList st d l).bind fun gs => .ok (gs.map fun g => match g .track_id with | .int i => i | _ => 0)

/-! ## Playlist -/

def pPair (r q : Raw PCol) : Bool :=
  (sameNN (r .title) (q .title) && sameNN (r .parentListId) (q .parentListId)) ||
  (sameNN (r .parentListId) (q .parentListId) && sameNN (r .nextListId) (q .nextListId))

/-- UNIQUE (title, parentListId) and UNIQUE (parentListId, nextListId) among all rows. -/
def pUnique : Rows PCol → Bool
  | [] => true
  | r :: rs => rs.all (fun q => !pPair r q) && pUnique rs

/-- `ensure_valid_name` -/
def validName (n : Bytes) : Bool := !n.isEmpty && !n.contains 59

/-- `SELECT parentListId FROM PlaylistAllParent WHERE id = i`: the chain of
parents, `none` when it does not end (the recursive view loops). -/
def ancestorsFuel (t : Rows PCol) : Nat → Int → Option (List Int)
  | 0, _ => none
  | n + 1, i =>
    match findRow .id t i with
    | none => some []
    | some r =>
      let p := readInt (r .parentListId)
      (ancestorsFuel t n p).map (p :: ·)

def ancestors (t : Rows PCol) (i : Int) : Option (List Int) := ancestorsFuel t (t.length + 1) i

/-- `SELECT childListId FROM PlaylistAllChildren WHERE id = i`: breadth first,
children in rowid order; `none` when it does not end. -/
def descendantsFuel (t : Rows PCol) : Nat → List Int → Option (List Int)
  | 0, [] => some []
  | 0, _ :: _ => none
  | _ + 1, [] => some []
  | n + 1, q :: queue =>
    let kids := (t.filter (fun r => r .parentListId == .int q)).map (rowId .id)
    (descendantsFuel t n (queue ++ kids)).map (kids ++ ·)

/-- Fuel: each row is reported once per path to it; with no cycle a row has one
path, so `length + 1` dequeues suffice; more dequeues mean a cycle. -/
def descendants (t : Rows PCol) (i : Int) : Option (List Int) :=
  match descendantsFuel t (t.length + 1) [i] with
  | some l => some l
  | none => none

/-- Both views are computed for every row before the `WHERE id = ?` applies, so a
parent cycle anywhere in the table makes any use of them run forever. -/
def acyclic (t : Rows PCol) : Bool := t.all (fun r => (ancestors t (rowId .id r)).isSome)

def setPersist (t : Rows PCol) (ids : List Int) (v : Int) : Rows PCol :=
  updWhere t (fun r => ids.contains (rowId .id r)) (fun r => setCol r .isPersisted (.int v))

/-- `WHEN` of trigger_after_insert_isPersist (no `old`) / trigger_after_update_isPersistParent. -/
def persistUp (old : Option (Raw PCol)) (new : Raw PCol) : Bool :=
  match old with
  | none => new .isPersisted == .int 1
  | some o => (o .isPersisted == .int 0 && new .isPersisted == .int 1) ||
              (!(o .parentListId == new .parentListId) && new .isPersisted == .int 1)

/-- `WHEN` of trigger_after_update_isPersistChild. -/
def persistDown (old : Option (Raw PCol)) (new : Raw PCol) : Bool :=
  match old with
  | none => false
  | some o => o .isPersisted == .int 1 && new .isPersisted == .int 0

/-- The isPersist triggers after a row changed from `old` to `new` (an INSERT has
no `old`): ancestors become persisted, or descendants unpersisted. -/
def persistTriggers (t : Rows PCol) (old : Option (Raw PCol)) (new : Raw PCol) : Res (Rows PCol) :=
  if persistUp old new then
    if !acyclic t then .ub .nontermination else
    match ancestors t (rowId .id new) with
    | none => .ub .nontermination
    | some a => .ok (setPersist t a 1)
  else if persistDown old new then
    if !acyclic t then .ub .nontermination else
    match descendants t (rowId .id new) with
    | none => .ub .nontermination
    | some ds => .ok (setPersist t ds 0)
  else .ok t

/-- `INSERT INTO Playlist` of `raw` under its triggers.  `none` = constraint failure. -/
def pInsertRow (t : Rows PCol) (raw : Raw PCol) : Res (Option (Rows PCol)) :=
  let nx := readInt (raw .nextListId)
  -- trigger_before_insert_List
  let t1 := updWhere t (fun r => r .nextListId == raw .nextListId && r .parentListId == raw .parentListId)
    (fun r => setCol r .nextListId (.int (-(1 + readInt (r .nextListId)))))
  if !pUnique t1 then .ok none else
  let t2 := t1 ++ [raw]
  if !pUnique t2 then .ok none else
  -- trigger_after_insert_List
  let t3 := updWhere t2 (fun r => r .nextListId == .int (-(1 + nx)) && r .parentListId == raw .parentListId)
    (fun r => setCol r .nextListId (.int (rowId .id raw)))
  if !pUnique t3 then .ok none else
  -- trigger_after_insert_isPersist
  match persistTriggers t3 none raw with
  | .ok t4 => .ok (some t4)
  | .throw e => .throw e
  | .ub u => .ub u

/-- `playlist_table::add` -/
def pAdd (st : LStmts) (d : LDb) (r : Row PField) : LDb × Res Int :=
  if r .id ≠ .int 0 then (d, .throw .runtime_error) else   -- playlist_row_id_error
  match r .title with
  | .str title =>
    if !validName title then (d, .throw (.dj "crate_invalid_name")) else
    match evalParams r st.pIns with
    | .throw e => (d, .throw e)
    | .ub u => (d, .ub u)
    | .ok ps =>
      let i := d.plSeq + 1
      match pInsertRow d.pl (assign (setCol nullRaw .id (.int i)) ps) with
      | .ok (some t) => ({ d with pl := t, plSeq := i }, .ok i)
      | .ok none => (d, .throw .sqlite_error)
      | .throw e => (d, .throw e)
      | .ub u => (d, .ub u)
  | _ => (d, .throw .logic_error)

/-- `playlist_table::get` -/
def pGet (st : LStmts) (d : LDb) (i : Int) : Res (Option (Row PField)) :=
  match findRow .id d.pl i with
  | none => .ok none
  | some raw =>
    match readRow raw st.pSel with
    | .ok g => .ok (some g)
    | .throw e => .throw e
    | .ub u => .ub u

def pExists (d : LDb) (i : Int) : Bool := (findRow .id d.pl i).isSome

/-- One `UPDATE Playlist SET … WHERE <p>` touching at most the columns nextListId:
constraint check after it (the isPersist triggers do not fire: neither
isPersisted nor parentListId changes). -/
def pUpdNext (t : Rows PCol) (p : Raw PCol → Bool) (f : Raw PCol → Raw PCol) : Option (Rows PCol) :=
  let t' := updWhere t p f
  if pUnique t' then some t' else none

/-- `UPDATE Playlist SET <params> WHERE Id = i` with the isPersist triggers. -/
def pUpdRow (t : Rows PCol) (i : Int) (ps : List (PCol × Val)) : Res (Option (Rows PCol)) :=
  match findRow .id t i with
  | none => .ok (some t)
  | some old =>
    let new := assign old ps
    let t1 := updRow .id t i (fun _ => new)
    if !pUnique t1 then .ok none else
    match persistTriggers t1 (some old) new with
    | .ok t2 => .ok (some t2)
    | .throw e => .throw e
    | .ub u => .ub u

/-- `playlist_table::update` -/
def pUpdate (st : LStmts) (d : LDb) (r : Row PField) : LDb × Res Unit :=
  if r .id = .int 0 then (d, .throw .runtime_error) else   -- playlist_row_id_error
  match r .id, r .title, r .parent_list_id, r .next_list_id with
  | .int i, .str title, .int parent, .int next =>
    if !validName title then (d, .throw (.dj "crate_invalid_name")) else
    match findRow .id d.pl i with
    | none => (d, .throw .sqlite_error)       -- `>> std::tie` on no row: sqlite::errors::no_rows
    | some old =>
      let oldParent := readInt (old .parentListId)
      let oldNext := readInt (old .nextListId)
      if oldNext == next && oldParent == parent then
        match evalParams r st.pUpdSimple with
        | .throw e => (d, .throw e)
        | .ub u => (d, .ub u)
        | .ok ps =>
          match pUpdRow d.pl i ps with
          | .ok (some t) => ({ d with pl := t }, .ok ())
          | .ok none => (d, .throw .sqlite_error)
          | .throw e => (d, .throw e)
          | .ub u => (d, .ub u)
      else
        -- 1. detach the subject
        match pUpdNext d.pl (fun x => rowId .id x == i)
            (fun x => setCol x .nextListId (.int (-(1 + readInt (x .nextListId))))) with
        | none => (d, .throw .sqlite_error)
        | some t1 =>
        -- 2. the subject's predecessor takes over its successor
        match pUpdNext t1 (fun x => x .nextListId == .int i && x .parentListId == .int oldParent)
            (fun x => setCol x .nextListId (.int oldNext)) with
        | none => (d, .throw .sqlite_error)
        | some t2 =>
        -- 3. the target's predecessor now points to the subject
        match pUpdNext t2 (fun x => x .nextListId == .int next && x .parentListId == .int parent)
            (fun x => setCol x .nextListId (.int i)) with
        | none => (d, .throw .sqlite_error)
        | some t3 =>
        -- 4. the subject takes its new place and values
        match evalParams r st.pUpdFull with
        | .throw e => (d, .throw e)
        | .ub u => (d, .ub u)
        | .ok ps =>
          match pUpdRow t3 i ps with
          | .ok (some t) => ({ d with pl := t }, .ok ())
          | .ok none => (d, .throw .sqlite_error)
          | .throw e => (d, .throw e)
          | .ub u => (d, .ub u)
  | _, _, _, _ => (d, .throw .logic_error)

/-- `DELETE FROM Playlist WHERE id = i` under trigger_after_delete_List (not re-entrant). -/
def pDeleteRow (t : Rows PCol) (i : Int) : Option (Rows PCol) :=
  match findRow .id t i with
  | none => some t
  | some old =>
    let t1 := delRow .id t i
    let t2 := updWhere t1 (fun r => r .nextListId == .int i) (fun r => setCol r .nextListId (old .nextListId))
    if !pUnique t2 then none else
    some (delWhere t2 (fun r => r .parentListId == .int i))

/-- `playlist_table::remove` -/
def pRemove (st : LStmts) (d : LDb) (i : Int) : LDb × Res Unit :=
  if !pExists d i then
    (if st.pRemoveChecks then (d, .throw .invalid_argument) else (d, .ok ()))
  else
    if !acyclic d.pl then (d, .ub .nontermination) else
    match descendants d.pl i with
    | none => (d, .ub .nontermination)
    | some ds =>
      let removed := i :: ds
      let pe := removed.foldl eClearRows d.pe
      match removed.foldlM (fun t j => pDeleteRow t j) d.pl with
      | none => (d, .throw .sqlite_error)
      | some pl => ({ d with pl := pl, pe := pe }, .ok ())

def pIds (d : LDb) : List Int := rowIds .id d.pl

/-! ## histories -/

inductive LOp where
  | pAdd (r : Row PField)
  | pUpdate (r : Row PField)
  | pRemove (i : Int)
  | eAddBack (r : Row EField) (throwIfDup : Bool)
  | eRemove (l e : Int)
  | eClear (l : Int)

def lStep (st : LStmts) (d : LDb) : LOp → LDb
  | .pAdd r => (pAdd st d r).1
  | .pUpdate r => (pUpdate st d r).1
  | .pRemove i => (pRemove st d i).1
  | .eAddBack r f => (eAddBack st d r f).1
  | .eRemove l e => (eRemove st d l e).1
  | .eClear l => eClear d l

def lRun (st : LStmts) (d : LDb) : List LOp → LDb
  | [] => d
  | op :: ops => lRun st (lStep st d op) ops

/-- Invariant of reachable states: playlist ids are bounded by the AUTOINCREMENT counter. -/
def LDb.Wf (d : LDb) : Prop := idsBelow .id d.pl d.plSeq

/-! ## Spec -/

/-- **Spec.** The row `playlist_table::get` must return after `add r` assigned id
`i` (or after `update r` with `i = r.id`): every member as written, the last-edit
time floored to whole seconds (it is stored as text). -/
def normRowP (i : Int) (r : Row PField) : Row PField := fun f =>
  match f with
  | .id => .int i
  | f => normV f.ty (r f)

/-- **Spec.** The row `playlist_entity_table::get` must return after `add_back r`
inserted it with id `i`: as written; `next_entity_id` is maintained by the table
(`add_back` appends: no next entity). -/
def normRowE (i : Int) (r : Row EField) : Row EField := fun f =>
  match f with
  | .id => .int i
  | .next_entity_id => .int 0
  | f => normV f.ty (r f)

def wtRowP (r : Row PField) : Prop := ∀ f, wtv f.ty (r f) = true
def wtRowE (r : Row EField) : Prop := ∀ f, wtv f.ty (r f) = true

def PField.writable : List PField := PField.all.filter (fun f => decide (f ≠ .id))
def eNeed : List EField := [.list_id, .track_id, .database_uuid, .membership_reference]

/-- Alignment of the statements added in the second round: the three-key `get`,
the `get_for_list` callback, and the WHERE clause of `remove`, which must name
the PAIR (listId ← list_id, id ← entity_id). -/
def alignedLext (st : LStmts) : Bool :=
  alignedR eSpec (fun _ => true) st.eSel3
  && alignedR eSpec (fun _ => true) st.eSelList
  && decide (st.eRemoveWhere = [(.listId, 0), (.id, 1)])

/-- Alignment of the playlist / entity row statements with the Spec (decidable). -/
def alignedLcore (st : LStmts) : Bool :=
  decide (Gen.Bindings.playlistFields.map (·.1) = PField.all)
  && decide (Gen.Bindings.entityFields = EField.all.map (fun f => (f, f.ty)))
  && alignedW pSpec PField.writable [] st.pIns
  && alignedW pSpec PField.writable [] st.pUpdFull
  && alignedW pSpec [.title, .is_persisted, .last_edit_time, .is_explicitly_exported] [] st.pUpdSimple
  && alignedR pSpec (fun _ => true) st.pSel
  && alignedW eSpec eNeed [(.nextEntityId, .int 0)] st.eIns
  && alignedR eSpec (fun _ => true) st.eSel
  && st.pRemoveChecks && st.eRemoveChecks

/-- Alignment of the list-table statements with the Spec (decidable). -/
def alignedL (st : LStmts) : Bool := alignedLcore st && alignedLext st

end Table
end EngineModel
