/-
Schema-2.x table API (property C18): the generic part.

A table statement of the library is a *binding table*: the ordered list of
(column, row member, conversion) triples of one `INSERT` / `UPDATE` / `SELECT`.
`evalParams` / `assign` / `readRow` give the statements their meaning; the
binding tables themselves are regenerated from the C++ source on every run
(`Gen/Bindings.lean`, tools/tr_bindings.py).  `Aligned…` is the decidable
predicate "every member is bound to its own column, with the conversion of its
declared type, none twice, none missing".

SQL values (`Val`), C++ member values (`FVal`) and the conversions of
`sqlite_modern_cpp` / `util/chrono.hpp` between them follow the code:
  optional ↔ NULL, bool ↔ 0/1, `to_timestamp` = truncation toward zero to whole
  seconds, `to_time_point` = seconds → ticks (signed overflow is `ub`),
  `to_ft` / `parse_ft` (text; `parse_ft ∘ to_ft` = floor to whole seconds),
  NaN bound as a double is stored as NULL, -0.0 is stored as +0.0 (SQLite),
  blob members travel through `to_blob` / `from_blob`, kept here as their
  logical value (`BlobV`; the byte-level round trip is property C03).
-/
import EngineModel.Basic.Res
import EngineModel.Basic.F64
import EngineModel.Format.V2

namespace EngineModel
namespace Table

/-! ## values -/

inductive BlobKind where
  | track | ovw | beat | cues | loops
  deriving DecidableEq, Repr, Inhabited

/-- Logical value of a performance-data blob member: the struct and its
free-form `extra_data`. -/
inductive BlobV where
  | track (v : V2.Track) (x : Bytes)
  | ovw (v : V2.Ovw) (x : Bytes)
  | beat (v : V2.Beat) (x : Bytes)
  | cues (v : V2.Cues) (x : Bytes)
  | loops (v : V2.Loops) (x : Bytes)
  deriving DecidableEq, Repr, Inhabited

def BlobV.kind : BlobV → BlobKind
  | .track .. => .track | .ovw .. => .ovw | .beat .. => .beat | .cues .. => .cues | .loops .. => .loops

/-- `to_blob()` accepts the value (labels longer than 255 bytes are rejected
with `invalid_argument`; everything else encodes). -/
def BlobV.encodable : BlobV → Bool
  | .cues v _ => v.cues.all (fun q => decide (q.label.length ≤ 255))
  | .loops v _ => v.all (fun l => decide (l.label.length ≤ 255))
  | _ => true

/-- A value stored in a column. `ft sec frac` is the text `date::format("%F %T")`
produces for the instant `sec` s + `frac` ns (rendered only by the driver). -/
inductive Val where
  | null
  | int (i : Int)
  | real (bits : UInt64)
  | text (s : Bytes)
  | blob (v : BlobV)
  | ft (sec : Int) (frac : Int)
  deriving DecidableEq, Repr, Inhabited

/-- A value of a row member. -/
inductive FVal where
  | int (i : Int)                 -- int64_t
  | oint (i : Option Int)         -- std::optional<int64_t> / <int32_t>
  | str (s : Bytes)               -- std::string
  | ostr (s : Option Bytes)       -- std::optional<std::string>
  | oreal (x : Option UInt64)     -- std::optional<double>, bit pattern
  | bool (b : Bool)
  | time (ns : Int)               -- system_clock::time_point, ticks = ns
  | otime (ns : Option Int)
  | blob (v : BlobV)
  deriving DecidableEq, Repr, Inhabited

/-- Declared type of a row member / accessor argument. -/
inductive FTy where
  | i64 | oi64 | oi32 | str | ostr | odbl | bool
  | time | otime            -- stored as integer seconds
  | timeText                -- stored as text through to_ft / parse_ft
  | blob (k : BlobKind)
  deriving DecidableEq, Repr, Inhabited

/-- C++ type of a bound lambda parameter / `get_column` template argument. -/
inductive PTy where
  | i64 | oi64 | oi32 | str | ostr | odbl | bool | bytes
  deriving DecidableEq, Repr, Inhabited

/-- Conversion applied to a member before binding. -/
inductive WConv where
  | direct | timestamp | toBlob | toFt
  deriving DecidableEq, Repr, Inhabited

/-- Conversion applied to a read parameter before it initialises the member. -/
inductive RConv where
  | direct | timePoint | fromBlob (k : BlobKind) | parseFt
  deriving DecidableEq, Repr, Inhabited

/-! ## integer ranges and time arithmetic -/

def in64 (i : Int) : Bool := decide (-9223372036854775808 ≤ i ∧ i ≤ 9223372036854775807)
def in32 (i : Int) : Bool := decide (-2147483648 ≤ i ∧ i ≤ 2147483647)

/-- `static_cast<int32_t>` of a 64-bit value. -/
def wrap32 (i : Int) : Int := (i + 2147483648) % 4294967296 - 2147483648

/-- `duration_cast<seconds>`: integer division truncating toward zero. -/
def truncSec (ns : Int) : Int := if 0 ≤ ns then ns / 1000000000 else -((-ns) / 1000000000)
/-- What `parse_ft (to_ft t)` keeps: whole seconds, rounded toward -∞. -/
def floorSec (ns : Int) : Int := ns / 1000000000

/-- `time_point{seconds(ts)}`: seconds → ticks; overflowing int64 is UB. -/
def toTimePoint (ts : Int) : Res Int :=
  if in64 (ts * 1000000000) then .ok (ts * 1000000000) else .ub .signed_overflow

/-! ## conversions -/

/-- What SQLite keeps of a double bound to a column: NaN becomes NULL, -0.0
becomes +0.0. -/
def storeReal (x : UInt64) : Val :=
  if F64.isNaN x then .null else if x = F64.negZero then .real F64.zero else .real x

def wconv : WConv → FVal → Res Val
  | .direct, .int i => .ok (.int i)
  | .direct, .oint none => .ok .null
  | .direct, .oint (some i) => .ok (.int i)
  | .direct, .str s => .ok (.text s)
  | .direct, .ostr none => .ok .null
  | .direct, .ostr (some s) => .ok (.text s)
  | .direct, .oreal none => .ok .null
  | .direct, .oreal (some x) => .ok (storeReal x)
  | .direct, .bool b => .ok (.int (if b then 1 else 0))
  | .timestamp, .time ns => .ok (.int (truncSec ns))
  | .timestamp, .otime none => .ok .null
  | .timestamp, .otime (some ns) => .ok (.int (truncSec ns))
  | .toBlob, .blob v => if v.encodable then .ok (.blob v) else .throw .invalid_argument
  | .toFt, .time ns => .ok (.ft (ns / 1000000000) (ns % 1000000000))
  | _, _ => .throw .logic_error     -- not expressible in the C++ (would not compile)

/-- `sqlite3_column_int64` after the NULL test of the binding layer. Columns
only ever hold what the API wrote, so cross-type coercions are not modelled. -/
def readInt : Val → Int
  | .int i => i
  | _ => 0
def readOptInt : Val → Option Int
  | .null => none
  | v => some (readInt v)
def readStr : Val → Bytes
  | .text s => s
  | _ => []
def readOptStr : Val → Option Bytes
  | .null => none
  | v => some (readStr v)
def readOptReal : Val → Option UInt64
  | .null => none
  | .real x => some x
  | _ => some 0

def fromBlob (k : BlobKind) : Val → Res FVal
  | .blob v => if v.kind = k then .ok (.blob v) else .throw .invalid_argument
  | _ => .throw .invalid_argument

def parseFt : Val → Res FVal
  | .ft sec _ => (toTimePoint sec).bind (fun t => .ok (.time t))
  | _ => .throw .invalid_argument

def rconv : PTy → RConv → Val → Res FVal
  | .i64, .direct, v => .ok (.int (readInt v))
  | .oi64, .direct, v => .ok (.oint (readOptInt v))
  | .oi32, .direct, v => .ok (.oint ((readOptInt v).map wrap32))
  | .str, .direct, v => .ok (.str (readStr v))
  | .ostr, .direct, v => .ok (.ostr (readOptStr v))
  | .odbl, .direct, v => .ok (.oreal (readOptReal v))
  | .bool, .direct, v => .ok (.bool (readInt v != 0))
  | .i64, .timePoint, v => (toTimePoint (readInt v)).bind (fun t => .ok (.time t))
  | .oi64, .timePoint, v =>
    match readOptInt v with
    | none => .ok (.otime none)
    | some ts => (toTimePoint ts).bind (fun t => .ok (.otime (some t)))
  | .bytes, .fromBlob k, v => fromBlob k v
  | .str, .parseFt, v => parseFt v
  | _, _, _ => .throw .logic_error  -- not expressible in the C++

/-! ## the conversion each declared type calls for (Spec side) -/

def FTy.wconv : FTy → WConv
  | .time | .otime => .timestamp
  | .timeText => .toFt
  | .blob _ => .toBlob
  | _ => .direct

def FTy.pty : FTy → PTy
  | .i64 => .i64 | .oi64 => .oi64 | .oi32 => .oi32 | .str => .str | .ostr => .ostr
  | .odbl => .odbl | .bool => .bool | .time => .i64 | .otime => .oi64 | .timeText => .str
  | .blob _ => .bytes

def FTy.rconv : FTy → RConv
  | .time | .otime => .timePoint
  | .timeText => .parseFt
  | .blob k => .fromBlob k
  | _ => .direct

/-- The member value has its declared C++ type (ranges of the fixed-width
integers included). -/
def wtv : FTy → FVal → Bool
  | .i64, .int i => in64 i
  | .oi64, .oint none => true
  | .oi64, .oint (some i) => in64 i
  | .oi32, .oint none => true
  | .oi32, .oint (some i) => in32 i
  | .str, .str _ => true
  | .ostr, .ostr _ => true
  | .odbl, .oreal _ => true
  | .bool, .bool _ => true
  | .time, .time ns => in64 ns
  | .otime, .otime none => true
  | .otime, .otime (some ns) => in64 ns
  | .timeText, .time ns => in64 ns && in64 (floorSec ns * 1000000000)
  | .blob k, .blob v => decide (v.kind = k)
  | _, _ => false

/-- What a member value reads back as after a write / read through its own
column (the Spec's normalisation). -/
def normV : FTy → FVal → FVal
  | .time, .time ns => .time (truncSec ns * 1000000000)
  | .otime, .otime (some ns) => .otime (some (truncSec ns * 1000000000))
  | .timeText, .time ns => .time (floorSec ns * 1000000000)
  | .odbl, .oreal (some x) =>
    if F64.isNaN x then .oreal none else if x = F64.negZero then .oreal (some F64.zero) else .oreal (some x)
  | _, v => v

/-! ## what a column may hold on reachable states -/

/-- The values the column of a member of declared type `ty` holds after any
history of API calls (and triggers): the storage class the binding layer writes
for that type, a timestamp within the range `to_time_point` can convert back
(|ts| ≤ 9223372036 s), a blob of the member's own kind.  NULL is what an absent
optional, a never-written column of an older schema, `set_date_*(nullopt)` and
an unset `Information.uuid` leave; every non-blob type reads it as its zero value. -/
def colTyped : FTy → Val → Bool
  | .blob k, .blob v => decide (v.kind = k) && v.encodable
  | .blob _, _ => false
  | .timeText, .ft sec _ => in64 (sec * 1000000000)
  | .timeText, _ => false
  | _, .null => true
  | .i64, .int _ => true
  | .oi64, .int _ => true
  | .oi32, .int i => in32 i
  | .bool, .int i => i == 0 || i == 1
  | .str, .text _ => true
  | .ostr, .text _ => true
  | .odbl, .real x => !F64.isNaN x
  | .time, .int ts => in64 (ts * 1000000000)
  | .otime, .int ts => in64 (ts * 1000000000)
  | _, _ => false

/-! ## binding tables -/

/-- What is bound to a `?`: a row member through a conversion, or a constant
(a local variable holding a literal, e.g. `next_entity_id = 0`). -/
inductive WSrc (F : Type) where
  | field (f : F) (k : WConv)
  | const (v : Val)
  deriving DecidableEq, Repr

/-- One bound parameter of an `INSERT` / `UPDATE … SET`. -/
structure WB (C F : Type) where
  col : C
  src : WSrc F
  deriving DecidableEq, Repr

/-- Where a row member comes from in a `SELECT` callback. -/
inductive RSrc (C : Type) where
  | col (c : C) (p : PTy) (k : RConv)
  | noneOpt          -- `std::nullopt`
  | epoch            -- `LAST_EDIT_TIME_NONE`
  deriving DecidableEq, Repr

structure RB (C F : Type) where
  field : F
  src : RSrc C
  deriving DecidableEq, Repr

/-- A per-column accessor: `get_column<T>(db, id, "col")` / `set_column<T>`. -/
structure Acc (C F S : Type) where
  field : F
  col : C
  ty : FTy
  minSchema : Option S       -- `if (schema < X) throw unsupported_operation`
  deriving DecidableEq, Repr

variable {C F : Type} [DecidableEq C] [DecidableEq F]

abbrev Raw (C : Type) := C → Val
abbrev Row (F : Type) := F → FVal

/-- Evaluate the `<<` chain left to right (the first failing conversion throws). -/
def evalSrc (r : Row F) : WSrc F → Res Val
  | .field f k => wconv k (r f)
  | .const v => .ok v

def evalParams (r : Row F) : List (WB C F) → Res (List (C × Val))
  | [] => .ok []
  | p :: ps =>
    match evalSrc r p.src with
    | .ok v =>
      match evalParams r ps with
      | .ok rest => .ok ((p.col, v) :: rest)
      | .throw e => .throw e
      | .ub u => .ub u
    | .throw e => .throw e
    | .ub u => .ub u

def setCol (raw : Raw C) (c : C) (v : Val) : Raw C := fun c' => if c' = c then v else raw c'

/-- Store the evaluated parameters into their columns. -/
def assign (raw : Raw C) : List (C × Val) → Raw C
  | [] => raw
  | (c, v) :: rest => assign (setCol raw c v) rest

def readSrc (raw : Raw C) : RSrc C → Res FVal
  | .col c p k => rconv p k (raw c)
  | .noneOpt => .ok (.oint none)
  | .epoch => .ok (.time 0)

/-- Run the `SELECT` callback: every member from its source. -/
def readRow (raw : Raw C) : List (RB C F) → Res (Row F)
  | [] => .ok (fun _ => .int 0)
  | b :: bs =>
    match readSrc raw b.src with
    | .ok v =>
      match readRow raw bs with
      | .ok g => .ok (fun f => if f = b.field then v else g f)
      | .throw e => .throw e
      | .ub u => .ub u
    | .throw e => .throw e
    | .ub u => .ub u

/-! ## alignment (decidable) -/

def nodupB : List C → Bool
  | [] => true
  | c :: cs => !cs.contains c && nodupB cs

/-- The Spec of one table: its members in declaration order, the column and
the declared type of each. -/
structure TSpec (C F : Type) where
  fields : List F
  colOf : F → C
  tyOf : F → FTy

/-- A write statement binds exactly the members `need`, each to its own column
with the conversion of its type, and exactly the constants `consts`, no column
twice. -/
def alignedW (sp : TSpec C F) (need : List F) (consts : List (C × Val)) (ps : List (WB C F)) : Bool :=
  ps.all (fun p =>
    match p.src with
    | .field f k => decide (p.col = sp.colOf f) && decide (k = (sp.tyOf f).wconv) && need.contains f
    | .const v => consts.contains (p.col, v))
  && nodupB (ps.map (·.col))
  && need.all (fun f => ps.contains ⟨sp.colOf f, .field f (sp.tyOf f).wconv⟩)
  && consts.all (fun cv => ps.contains ⟨cv.1, .const cv.2⟩)

/-- Source the Spec expects for a member the schema has no column for. -/
def absentSrc : FTy → RSrc C
  | .time | .timeText => .epoch
  | _ => .noneOpt

/-- A read statement initialises every member, in declaration order, from its
own column with the parameter type and conversion of its declared type (or
from the documented constant where the schema has no such column). -/
def alignedR (sp : TSpec C F) (present : F → Bool) (sel : List (RB C F)) : Bool :=
  decide (sel.map (·.field) = sp.fields)
  && sel.all (fun b =>
      decide (b.src = (if present b.field
        then .col (sp.colOf b.field) (sp.tyOf b.field).pty (sp.tyOf b.field).rconv
        else absentSrc (sp.tyOf b.field))))

end Table
end EngineModel
