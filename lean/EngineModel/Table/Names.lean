/-
Names of the schema-2.x tables (property C18), written from the public headers
include/djinterop/engine/v2/*_table.hpp (row members, in declaration order, with
their declared types) and the documented column each member stands for.  This
is the Spec side: `Gen/Bindings.lean` (regenerated from the .cpp files on every
run) is checked against it.
-/
import EngineModel.Table.Core

namespace EngineModel
namespace Table

/-- The seven supported 2.x schema versions, in `engine_schema` order. -/
inductive Schema2 where
  | s2_18_0 | s2_20_1 | s2_20_2 | s2_20_3 | s2_21_0 | s2_21_1 | s2_21_2
  deriving DecidableEq, Repr, Inhabited

def Schema2.ord : Schema2 → Nat
  | .s2_18_0 => 0 | .s2_20_1 => 1 | .s2_20_2 => 2 | .s2_20_3 => 3 | .s2_21_0 => 4 | .s2_21_1 => 5 | .s2_21_2 => 6

/-- `schema >= other` on the enumerators. -/
def Schema2.ge (a b : Schema2) : Bool := decide (b.ord ≤ a.ord)

def Schema2.all : List Schema2 := [.s2_18_0, .s2_20_1, .s2_20_2, .s2_20_3, .s2_21_0, .s2_21_1, .s2_21_2]

def Schema2.name : Schema2 → String
  | .s2_18_0 => "schema_2_18_0" | .s2_20_1 => "schema_2_20_1" | .s2_20_2 => "schema_2_20_2"
  | .s2_20_3 => "schema_2_20_3" | .s2_21_0 => "schema_2_21_0" | .s2_21_1 => "schema_2_21_1"
  | .s2_21_2 => "schema_2_21_2"

/-- (major, minor, patch) stamped into the Information row. -/
def Schema2.version : Schema2 → Int × Int × Int
  | .s2_18_0 => (2, 18, 0) | .s2_20_1 => (2, 20, 1) | .s2_20_2 => (2, 20, 2) | .s2_20_3 => (2, 20, 3)
  | .s2_21_0 => (2, 21, 0) | .s2_21_1 => (2, 21, 1) | .s2_21_2 => (2, 21, 2)

/-- Pick the branch of an `if (schema >= A) … else if (schema >= B) … else …` chain. -/
def pickBranch {α : Type} (s : Schema2) : List (Option Schema2 × α) → Option α
  | [] => none
  | (none, a) :: _ => some a
  | (some t, a) :: rest => if s.ge t then some a else pickBranch s rest

/-! ## Track (`track_row`, table `Track`) -/

inductive TField where
  | id | play_order | length | bpm | year | path | filename | bitrate | bpm_analyzed | album_art_id
  | file_bytes | title | artist | album | genre | comment | label | composer | remixer | key
  | rating | album_art | time_last_played | is_played | file_type | is_analyzed | date_created
  | date_added | is_available | is_metadata_of_packed_track_changed
  | is_performance_data_of_packed_track_changed | played_indicator | is_metadata_imported
  | pdb_import_key | streaming_source | uri | is_beat_grid_locked | origin_database_uuid
  | origin_track_id | track_data | overview_waveform_data | beat_data | quick_cues | loops
  | third_party_source_id | streaming_flags | explicit_lyrics | active_on_load_loops
  | last_edit_time
  deriving DecidableEq, Repr, Inhabited

inductive TCol where
  | id | playOrder | length | bpm | year | path | filename | bitrate | bpmAnalyzed | albumArtId
  | fileBytes | title | artist | album | genre | comment | label | composer | remixer | key | rating
  | albumArt | timeLastPlayed | isPlayed | fileType | isAnalyzed | dateCreated | dateAdded
  | isAvailable | isMetadataOfPackedTrackChanged | isPerfomanceDataOfPackedTrackChanged
  | playedIndicator | isMetadataImported | pdbImportKey | streamingSource | uri | isBeatGridLocked
  | originDatabaseUuid | originTrackId | trackData | overviewWaveFormData | beatData | quickCues
  | loops | thirdPartySourceId | streamingFlags | explicitLyrics | activeOnLoadLoops | lastEditTime
  deriving DecidableEq, Repr, Inhabited

def TField.all : List TField := [.id, .play_order, .length, .bpm, .year, .path, .filename, .bitrate, .bpm_analyzed, .album_art_id, .file_bytes, .title, .artist, .album, .genre, .comment, .label, .composer, .remixer, .key, .rating, .album_art, .time_last_played, .is_played, .file_type, .is_analyzed, .date_created, .date_added, .is_available, .is_metadata_of_packed_track_changed, .is_performance_data_of_packed_track_changed, .played_indicator, .is_metadata_imported, .pdb_import_key, .streaming_source, .uri, .is_beat_grid_locked, .origin_database_uuid, .origin_track_id, .track_data, .overview_waveform_data, .beat_data, .quick_cues, .loops, .third_party_source_id, .streaming_flags, .explicit_lyrics, .active_on_load_loops, .last_edit_time]

def TCol.all : List TCol := [.id, .playOrder, .length, .bpm, .year, .path, .filename, .bitrate, .bpmAnalyzed, .albumArtId, .fileBytes, .title, .artist, .album, .genre, .comment, .label, .composer, .remixer, .key, .rating, .albumArt, .timeLastPlayed, .isPlayed, .fileType, .isAnalyzed, .dateCreated, .dateAdded, .isAvailable, .isMetadataOfPackedTrackChanged, .isPerfomanceDataOfPackedTrackChanged, .playedIndicator, .isMetadataImported, .pdbImportKey, .streamingSource, .uri, .isBeatGridLocked, .originDatabaseUuid, .originTrackId, .trackData, .overviewWaveFormData, .beatData, .quickCues, .loops, .thirdPartySourceId, .streamingFlags, .explicitLyrics, .activeOnLoadLoops, .lastEditTime]

def TField.name : TField → String
  | .id => "id"
  | .play_order => "play_order"
  | .length => "length"
  | .bpm => "bpm"
  | .year => "year"
  | .path => "path"
  | .filename => "filename"
  | .bitrate => "bitrate"
  | .bpm_analyzed => "bpm_analyzed"
  | .album_art_id => "album_art_id"
  | .file_bytes => "file_bytes"
  | .title => "title"
  | .artist => "artist"
  | .album => "album"
  | .genre => "genre"
  | .comment => "comment"
  | .label => "label"
  | .composer => "composer"
  | .remixer => "remixer"
  | .key => "key"
  | .rating => "rating"
  | .album_art => "album_art"
  | .time_last_played => "time_last_played"
  | .is_played => "is_played"
  | .file_type => "file_type"
  | .is_analyzed => "is_analyzed"
  | .date_created => "date_created"
  | .date_added => "date_added"
  | .is_available => "is_available"
  | .is_metadata_of_packed_track_changed => "is_metadata_of_packed_track_changed"
  | .is_performance_data_of_packed_track_changed => "is_performance_data_of_packed_track_changed"
  | .played_indicator => "played_indicator"
  | .is_metadata_imported => "is_metadata_imported"
  | .pdb_import_key => "pdb_import_key"
  | .streaming_source => "streaming_source"
  | .uri => "uri"
  | .is_beat_grid_locked => "is_beat_grid_locked"
  | .origin_database_uuid => "origin_database_uuid"
  | .origin_track_id => "origin_track_id"
  | .track_data => "track_data"
  | .overview_waveform_data => "overview_waveform_data"
  | .beat_data => "beat_data"
  | .quick_cues => "quick_cues"
  | .loops => "loops"
  | .third_party_source_id => "third_party_source_id"
  | .streaming_flags => "streaming_flags"
  | .explicit_lyrics => "explicit_lyrics"
  | .active_on_load_loops => "active_on_load_loops"
  | .last_edit_time => "last_edit_time"

def TCol.name : TCol → String
  | .id => "id"
  | .playOrder => "playOrder"
  | .length => "length"
  | .bpm => "bpm"
  | .year => "year"
  | .path => "path"
  | .filename => "filename"
  | .bitrate => "bitrate"
  | .bpmAnalyzed => "bpmAnalyzed"
  | .albumArtId => "albumArtId"
  | .fileBytes => "fileBytes"
  | .title => "title"
  | .artist => "artist"
  | .album => "album"
  | .genre => "genre"
  | .comment => "comment"
  | .label => "label"
  | .composer => "composer"
  | .remixer => "remixer"
  | .key => "key"
  | .rating => "rating"
  | .albumArt => "albumArt"
  | .timeLastPlayed => "timeLastPlayed"
  | .isPlayed => "isPlayed"
  | .fileType => "fileType"
  | .isAnalyzed => "isAnalyzed"
  | .dateCreated => "dateCreated"
  | .dateAdded => "dateAdded"
  | .isAvailable => "isAvailable"
  | .isMetadataOfPackedTrackChanged => "isMetadataOfPackedTrackChanged"
  | .isPerfomanceDataOfPackedTrackChanged => "isPerfomanceDataOfPackedTrackChanged"
  | .playedIndicator => "playedIndicator"
  | .isMetadataImported => "isMetadataImported"
  | .pdbImportKey => "pdbImportKey"
  | .streamingSource => "streamingSource"
  | .uri => "uri"
  | .isBeatGridLocked => "isBeatGridLocked"
  | .originDatabaseUuid => "originDatabaseUuid"
  | .originTrackId => "originTrackId"
  | .trackData => "trackData"
  | .overviewWaveFormData => "overviewWaveFormData"
  | .beatData => "beatData"
  | .quickCues => "quickCues"
  | .loops => "loops"
  | .thirdPartySourceId => "thirdPartySourceId"
  | .streamingFlags => "streamingFlags"
  | .explicitLyrics => "explicitLyrics"
  | .activeOnLoadLoops => "activeOnLoadLoops"
  | .lastEditTime => "lastEditTime"

/-- The column a member stands for. -/
def TField.col : TField → TCol
  | .id => .id
  | .play_order => .playOrder
  | .length => .length
  | .bpm => .bpm
  | .year => .year
  | .path => .path
  | .filename => .filename
  | .bitrate => .bitrate
  | .bpm_analyzed => .bpmAnalyzed
  | .album_art_id => .albumArtId
  | .file_bytes => .fileBytes
  | .title => .title
  | .artist => .artist
  | .album => .album
  | .genre => .genre
  | .comment => .comment
  | .label => .label
  | .composer => .composer
  | .remixer => .remixer
  | .key => .key
  | .rating => .rating
  | .album_art => .albumArt
  | .time_last_played => .timeLastPlayed
  | .is_played => .isPlayed
  | .file_type => .fileType
  | .is_analyzed => .isAnalyzed
  | .date_created => .dateCreated
  | .date_added => .dateAdded
  | .is_available => .isAvailable
  | .is_metadata_of_packed_track_changed => .isMetadataOfPackedTrackChanged
  | .is_performance_data_of_packed_track_changed => .isPerfomanceDataOfPackedTrackChanged
  | .played_indicator => .playedIndicator
  | .is_metadata_imported => .isMetadataImported
  | .pdb_import_key => .pdbImportKey
  | .streaming_source => .streamingSource
  | .uri => .uri
  | .is_beat_grid_locked => .isBeatGridLocked
  | .origin_database_uuid => .originDatabaseUuid
  | .origin_track_id => .originTrackId
  | .track_data => .trackData
  | .overview_waveform_data => .overviewWaveFormData
  | .beat_data => .beatData
  | .quick_cues => .quickCues
  | .loops => .loops
  | .third_party_source_id => .thirdPartySourceId
  | .streaming_flags => .streamingFlags
  | .explicit_lyrics => .explicitLyrics
  | .active_on_load_loops => .activeOnLoadLoops
  | .last_edit_time => .lastEditTime

/-- Declared type of the member. -/
def TField.ty : TField → FTy
  | .id => .i64
  | .play_order => .oi64
  | .length => .i64
  | .bpm => .oi64
  | .year => .oi64
  | .path => .str
  | .filename => .str
  | .bitrate => .oi64
  | .bpm_analyzed => .odbl
  | .album_art_id => .i64
  | .file_bytes => .oi64
  | .title => .ostr
  | .artist => .ostr
  | .album => .ostr
  | .genre => .ostr
  | .comment => .ostr
  | .label => .ostr
  | .composer => .ostr
  | .remixer => .ostr
  | .key => .oi32
  | .rating => .i64
  | .album_art => .ostr
  | .time_last_played => .otime
  | .is_played => .bool
  | .file_type => .str
  | .is_analyzed => .bool
  | .date_created => .time
  | .date_added => .time
  | .is_available => .bool
  | .is_metadata_of_packed_track_changed => .bool
  | .is_performance_data_of_packed_track_changed => .bool
  | .played_indicator => .oi64
  | .is_metadata_imported => .bool
  | .pdb_import_key => .i64
  | .streaming_source => .ostr
  | .uri => .ostr
  | .is_beat_grid_locked => .bool
  | .origin_database_uuid => .str
  | .origin_track_id => .i64
  | .track_data => .blob .track
  | .overview_waveform_data => .blob .ovw
  | .beat_data => .blob .beat
  | .quick_cues => .blob .cues
  | .loops => .blob .loops
  | .third_party_source_id => .oi64
  | .streaming_flags => .i64
  | .explicit_lyrics => .bool
  | .active_on_load_loops => .oi64
  | .last_edit_time => .time

def tSpec : TSpec TCol TField := ⟨TField.all, TField.col, TField.ty⟩

/-! ## Playlist (`playlist_row`, table `Playlist`) -/

inductive PField where
  | id | title | parent_list_id | is_persisted | next_list_id | last_edit_time
  | is_explicitly_exported
  deriving DecidableEq, Repr, Inhabited

inductive PCol where
  | id | title | parentListId | isPersisted | nextListId | lastEditTime | isExplicitlyExported
  deriving DecidableEq, Repr, Inhabited

def PField.all : List PField := [.id, .title, .parent_list_id, .is_persisted, .next_list_id, .last_edit_time, .is_explicitly_exported]

def PCol.all : List PCol := [.id, .title, .parentListId, .isPersisted, .nextListId, .lastEditTime, .isExplicitlyExported]

def PField.name : PField → String
  | .id => "id"
  | .title => "title"
  | .parent_list_id => "parent_list_id"
  | .is_persisted => "is_persisted"
  | .next_list_id => "next_list_id"
  | .last_edit_time => "last_edit_time"
  | .is_explicitly_exported => "is_explicitly_exported"

def PCol.name : PCol → String
  | .id => "id"
  | .title => "title"
  | .parentListId => "parentListId"
  | .isPersisted => "isPersisted"
  | .nextListId => "nextListId"
  | .lastEditTime => "lastEditTime"
  | .isExplicitlyExported => "isExplicitlyExported"

/-- The column a member stands for. -/
def PField.col : PField → PCol
  | .id => .id
  | .title => .title
  | .parent_list_id => .parentListId
  | .is_persisted => .isPersisted
  | .next_list_id => .nextListId
  | .last_edit_time => .lastEditTime
  | .is_explicitly_exported => .isExplicitlyExported

/-- Declared type of the member. -/
def PField.ty : PField → FTy
  | .id => .i64
  | .title => .str
  | .parent_list_id => .i64
  | .is_persisted => .bool
  | .next_list_id => .i64
  | .last_edit_time => .timeText
  | .is_explicitly_exported => .bool

def pSpec : TSpec PCol PField := ⟨PField.all, PField.col, PField.ty⟩

/-! ## PlaylistEntity (`playlist_entity_row`, table `PlaylistEntity`) -/

inductive EField where
  | id | list_id | track_id | database_uuid | next_entity_id | membership_reference
  deriving DecidableEq, Repr, Inhabited

inductive ECol where
  | id | listId | trackId | databaseUuid | nextEntityId | membershipReference
  deriving DecidableEq, Repr, Inhabited

def EField.all : List EField := [.id, .list_id, .track_id, .database_uuid, .next_entity_id, .membership_reference]

def ECol.all : List ECol := [.id, .listId, .trackId, .databaseUuid, .nextEntityId, .membershipReference]

def EField.name : EField → String
  | .id => "id"
  | .list_id => "list_id"
  | .track_id => "track_id"
  | .database_uuid => "database_uuid"
  | .next_entity_id => "next_entity_id"
  | .membership_reference => "membership_reference"

def ECol.name : ECol → String
  | .id => "id"
  | .listId => "listId"
  | .trackId => "trackId"
  | .databaseUuid => "databaseUuid"
  | .nextEntityId => "nextEntityId"
  | .membershipReference => "membershipReference"

/-- The column a member stands for. -/
def EField.col : EField → ECol
  | .id => .id
  | .list_id => .listId
  | .track_id => .trackId
  | .database_uuid => .databaseUuid
  | .next_entity_id => .nextEntityId
  | .membership_reference => .membershipReference

/-- Declared type of the member. -/
def EField.ty : EField → FTy
  | .id => .i64
  | .list_id => .i64
  | .track_id => .i64
  | .database_uuid => .str
  | .next_entity_id => .i64
  | .membership_reference => .i64

def eSpec : TSpec ECol EField := ⟨EField.all, EField.col, EField.ty⟩

/-! ## Information (`information_row`, table `Information`) -/

inductive IField where
  | id | uuid | schema_version_major | schema_version_minor | schema_version_patch
  | current_played_indicator | last_rekord_box_library_import_read_counter
  deriving DecidableEq, Repr, Inhabited

inductive ICol where
  | id | uuid | schemaVersionMajor | schemaVersionMinor | schemaVersionPatch
  | currentPlayedIndiciator | lastRekordBoxLibraryImportReadCounter
  deriving DecidableEq, Repr, Inhabited

def IField.all : List IField := [.id, .uuid, .schema_version_major, .schema_version_minor, .schema_version_patch, .current_played_indicator, .last_rekord_box_library_import_read_counter]

def ICol.all : List ICol := [.id, .uuid, .schemaVersionMajor, .schemaVersionMinor, .schemaVersionPatch, .currentPlayedIndiciator, .lastRekordBoxLibraryImportReadCounter]

def IField.name : IField → String
  | .id => "id"
  | .uuid => "uuid"
  | .schema_version_major => "schema_version_major"
  | .schema_version_minor => "schema_version_minor"
  | .schema_version_patch => "schema_version_patch"
  | .current_played_indicator => "current_played_indicator"
  | .last_rekord_box_library_import_read_counter => "last_rekord_box_library_import_read_counter"

def ICol.name : ICol → String
  | .id => "id"
  | .uuid => "uuid"
  | .schemaVersionMajor => "schemaVersionMajor"
  | .schemaVersionMinor => "schemaVersionMinor"
  | .schemaVersionPatch => "schemaVersionPatch"
  | .currentPlayedIndiciator => "currentPlayedIndiciator"
  | .lastRekordBoxLibraryImportReadCounter => "lastRekordBoxLibraryImportReadCounter"

/-- The column a member stands for. -/
def IField.col : IField → ICol
  | .id => .id
  | .uuid => .uuid
  | .schema_version_major => .schemaVersionMajor
  | .schema_version_minor => .schemaVersionMinor
  | .schema_version_patch => .schemaVersionPatch
  | .current_played_indicator => .currentPlayedIndiciator
  | .last_rekord_box_library_import_read_counter => .lastRekordBoxLibraryImportReadCounter

/-- Declared type of the member. -/
def IField.ty : IField → FTy
  | .id => .i64
  | .uuid => .str
  | .schema_version_major => .i64
  | .schema_version_minor => .i64
  | .schema_version_patch => .i64
  | .current_played_indicator => .i64
  | .last_rekord_box_library_import_read_counter => .i64

def iSpec : TSpec ICol IField := ⟨IField.all, IField.col, IField.ty⟩

/-! ## schema ranges of the Track column list -/

/-- Whether the Track table of schema `s` has the column of member `f`
(`activeOnLoadLoops` since 2.20.1, `lastEditTime` since 2.20.3). -/
def TField.present (s : Schema2) : TField → Bool
  | .active_on_load_loops => s.ge .s2_20_1
  | .last_edit_time => s.ge .s2_20_3
  | _ => true

/-- Members a Track `INSERT` / `UPDATE` writes on schema `s`: all but the id and
the members the schema has no column for. -/
def TField.writable (s : Schema2) : List TField :=
  TField.all.filter (fun f => decide (f ≠ .id) && f.present s)

/-- Type of the per-column accessor pair of a member: the two creation dates
are exchanged as optional time points, everything else as the member type. -/
def TField.accTy : TField → FTy
  | .date_created => .otime
  | .date_added => .otime
  | f => f.ty

/-- Schema guard of the accessor pair (older schemas answer `unsupported_operation`). -/
def TField.accGuard : TField → Option Schema2
  | .active_on_load_loops => some .s2_20_1
  | .last_edit_time => some .s2_20_3
  | _ => none

end Table
end EngineModel
