/-
Schema-2.x table API (property C18): a SQL table as the list of its rows in
rowid order, a row as the function column → stored value.  `findRow` /
`updRow` / `delRow` are `SELECT … WHERE id = ?`, `UPDATE … WHERE id = ?`,
`DELETE … WHERE id = ?` on the INTEGER PRIMARY KEY; `updWhere` / `delWhere` are
the general single-table forms.
-/
import EngineModel.Table.Core

namespace EngineModel
namespace Table

variable {C : Type} [DecidableEq C]

abbrev Rows (C : Type) := List (Raw C)

/-- A freshly inserted row before the bound values are stored: every column NULL. -/
def nullRaw : Raw C := fun _ => .null

/-- The INTEGER PRIMARY KEY of a row. -/
def rowId (idc : C) (r : Raw C) : Int := readInt (r idc)

def findRow (idc : C) (t : Rows C) (i : Int) : Option (Raw C) :=
  t.find? (fun r => rowId idc r == i)

def updRow (idc : C) (t : Rows C) (i : Int) (f : Raw C → Raw C) : Rows C :=
  t.map (fun r => if rowId idc r == i then f r else r)

def delRow (idc : C) (t : Rows C) (i : Int) : Rows C :=
  t.filter (fun r => !(rowId idc r == i))

def updWhere (t : Rows C) (p : Raw C → Bool) (f : Raw C → Raw C) : Rows C :=
  t.map (fun r => if p r then f r else r)

def delWhere (t : Rows C) (p : Raw C → Bool) : Rows C := t.filter (fun r => !p r)

def rowIds (idc : C) (t : Rows C) : List Int := t.map (rowId idc)

/-- `a = b` as a UNIQUE index sees it: NULLs are distinct from everything. -/
def sameNN (a b : Val) : Bool := !(a == .null) && a == b

/-- `IFNULL(x, 0) = 0` -/
def isZeroOrNull : Val → Bool
  | .null => true
  | .int i => i == 0
  | _ => false

/-- `IFNULL(x, '') = ''` -/
def isEmptyOrNull : Val → Bool
  | .null => true
  | .text s => s.isEmpty
  | _ => false

/-- Every row id is at most the AUTOINCREMENT counter and no id occurs twice:
the invariant that makes `seq + 1` a fresh id. -/
def idsBelow (idc : C) (t : Rows C) (seq : Int) : Prop := ∀ r ∈ t, rowId idc r ≤ seq

end Table
end EngineModel
