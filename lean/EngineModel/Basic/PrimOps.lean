/-
Hand-written support definitions for the code that `tools/tr_prim.py` generates
from src/djinterop/engine/encode_decode_utils.hpp (`Gen/PrimGen.lean`).

Semantics choices (the translator emits these names, one per typed-AST node):

* integers are carried as their two's-complement *bit patterns*:
  `int32_t`/`uint32_t`/`int` -> `UInt32`, `int64_t`/`uint64_t` -> `UInt64`,
  `uint8_t`/`std::byte` -> `UInt8`; a `double` is the `UInt64` of its IEEE-754
  bits (the header only ever moves it through `memcpy(&i64, &dbl, 8)`);
* `|`, `&` and `<<` on patterns are the machine operations `|||`, `&&&`, `<<<`
  (for `<<` on a *signed* operand the translator checks statically that the
  operand is a zero-extended narrower value that still fits the unsigned type
  after the shift, i.e. that the C++17 shift is defined; otherwise it fails
  closed);
* `>>` on a *signed* operand is the arithmetic shift, defined here by its
  meaning: the signed value divided by `2^k`, rounded towards minus infinity
  (gcc/clang behaviour, mandated since C++20);
* integral conversions are value-preserving where the value fits (zero
  extension of unsigned sources) and modular otherwise (truncation);
* a pointer into the buffer is the list of bytes from it to the end of the
  buffer; `ptr[k]` and `ptr + n` are partial: `none` = the access leaves the
  buffer (undefined behaviour in C++ — the callers check the length first).

This file deliberately does not import `EngineModel.Basic.Prim`: the generated
definitions are independent of the hand-written primitives they are proved
equal to in `Proofs/PrimGen.lean`.
-/
namespace EngineModel
namespace PrimOps

/-! ### memory -/

/-- `ptr[k]` (`*ptr` is `ptr[0]`). -/
def rd (ptr : List UInt8) (k : Nat) : Option UInt8 := ptr[k]?

/-- `ptr + n`: stays inside the buffer or points one past its end. -/
def adv (ptr : List UInt8) (n : Nat) : Option (List UInt8) :=
  if n ≤ ptr.length then some (ptr.drop n) else none

/-- `v.resize(n)`: truncates, or pads with value-initialised (zero) bytes. -/
def resize (v : List UInt8) (n : Nat) : List UInt8 := v.take n ++ List.replicate (n - v.length) 0

/-- `memcpy(dst, src, n)`: the first `n` bytes of `dst` become those of `src`. -/
def memcpy (dst src : List UInt8) (n : Nat) : Option (List UInt8) :=
  if n ≤ dst.length ∧ n ≤ src.length then some (src.take n ++ dst.drop n) else none

/-! ### signed readings of bit patterns -/

def s32 (x : UInt32) : Int := if x.toNat < 2147483648 then (x.toNat : Int) else (x.toNat : Int) - 4294967296
def s64 (x : UInt64) : Int :=
  if x.toNat < 9223372036854775808 then (x.toNat : Int) else (x.toNat : Int) - 18446744073709551616
def ofS32 (i : Int) : UInt32 := UInt32.ofNat (i % 4294967296).toNat
def ofS64 (i : Int) : UInt64 := UInt64.ofNat (i % 18446744073709551616).toNat

/-! ### shifts -/

/-- `int32_t >> k`: arithmetic shift = floor division of the signed value. -/
def sar32 (x : UInt32) (k : Nat) : UInt32 := ofS32 (s32 x / ((2 ^ k : Nat) : Int))
/-- `int64_t >> k`. -/
def sar64 (x : UInt64) (k : Nat) : UInt64 := ofS64 (s64 x / ((2 ^ k : Nat) : Int))
/-- `uint32_t >> k`: logical. -/
def shr32 (x : UInt32) (k : Nat) : UInt32 := x >>> UInt32.ofNat k
def shr64 (x : UInt64) (k : Nat) : UInt64 := x >>> UInt64.ofNat k
/-- `<< k` on a 32-bit pattern, `k < 32` (checked by the translator). -/
def shl32 (x : UInt32) (k : Nat) : UInt32 := x <<< UInt32.ofNat k
/-- `<< k` on a 64-bit pattern, `k < 64`. -/
def shl64 (x : UInt64) (k : Nat) : UInt64 := x <<< UInt64.ofNat k

/-! ### conversions (named `<target>_of_<source>` after the typed AST's cast nodes) -/

/-- `static_cast<uint8_t>(std::byte)`. -/
def u8_of_byte (b : UInt8) : UInt8 := b
/-- `static_cast<std::byte>(uint8_t)`. -/
def byte_of_u8 (b : UInt8) : UInt8 := b
/-- integral promotion `uint8_t -> int`: zero extension. -/
def i32_of_u8 (b : UInt8) : UInt32 := b.toUInt32
/-- `static_cast<std::byte>(int)`: the value modulo 256. -/
def byte_of_i32 (x : UInt32) : UInt8 := x.toUInt8
/-- `static_cast<std::byte>(unsigned)`: the value modulo 256. -/
def byte_of_u32 (x : UInt32) : UInt8 := x.toUInt8
/-- `static_cast<int32_t>(int64_t)`: the low 32 bits. -/
def i32_of_i64 (x : UInt64) : UInt32 := x.toUInt32
/-- `static_cast<uint32_t>(int32_t)`: same pattern. -/
def u32_of_i32 (x : UInt32) : UInt32 := x
/-- `static_cast<int32_t>(uint32_t)`: same pattern. -/
def i32_of_u32 (x : UInt32) : UInt32 := x
/-- `static_cast<int64_t>(uint32_t)`: zero extension. -/
def i64_of_u32 (x : UInt32) : UInt64 := x.toUInt64
/-- `static_cast<int64_t>(int32_t)`: sign extension. -/
def i64_of_i32 (x : UInt32) : UInt64 := ofS64 (s32 x)
/-- `memcpy(&dbl, &i64, 8)`: the same 64 bits. -/
def f64_of_i64_bits (x : UInt64) : UInt64 := x
/-- `memcpy(&i64, &dbl, 8)`: the same 64 bits. -/
def i64_of_f64_bits (x : UInt64) : UInt64 := x

end PrimOps
end EngineModel
