/-
Fixed-width primitive codecs over bytes, as arithmetic on `Nat` (div / mod by
literals) so that `omega` decides the bit-level lemmas; no `bv_decide`.
C++ counterpart: src/djinterop/engine/encode_decode_utils.hpp.
Integers are carried as their *bit patterns* (`UInt32`, `UInt64`); a double is
the `UInt64` of its IEEE-754 bits (the C++ memcpy's between int64 and double).
-/
set_option linter.unusedSimpArgs false

namespace EngineModel

abbrev Bytes := List UInt8

namespace Prim

def encU32BE (x : UInt32) : Bytes :=
  let n := x.toNat
  [(n / 16777216 % 256).toUInt8, (n / 65536 % 256).toUInt8, (n / 256 % 256).toUInt8, (n % 256).toUInt8]

def decU32BE (a b c d : UInt8) : UInt32 :=
  UInt32.ofNat (a.toNat * 16777216 + b.toNat * 65536 + c.toNat * 256 + d.toNat)

def encU32LE (x : UInt32) : Bytes :=
  let n := x.toNat
  [(n % 256).toUInt8, (n / 256 % 256).toUInt8, (n / 65536 % 256).toUInt8, (n / 16777216 % 256).toUInt8]

def decU32LE (a b c d : UInt8) : UInt32 := decU32BE d c b a

/-- 64-bit values are two 32-bit halves, exactly as the C++ composes them. -/
def hi32 (x : UInt64) : UInt32 := UInt32.ofNat (x.toNat / 4294967296)
def lo32 (x : UInt64) : UInt32 := UInt32.ofNat (x.toNat % 4294967296)
def join64 (hi lo : UInt32) : UInt64 := UInt64.ofNat (hi.toNat * 4294967296 + lo.toNat)

def encU64BE (x : UInt64) : Bytes := encU32BE (hi32 x) ++ encU32BE (lo32 x)
def encU64LE (x : UInt64) : Bytes := encU32LE (lo32 x) ++ encU32LE (hi32 x)

def decU64BE (a b c d e f g h : UInt8) : UInt64 := join64 (decU32BE a b c d) (decU32BE e f g h)
def decU64LE (a b c d e f g h : UInt8) : UInt64 := join64 (decU32LE e f g h) (decU32LE a b c d)

theorem decU32BE_encU32BE (x : UInt32) :
    (match encU32BE x with | [a, b, c, d] => decU32BE a b c d | _ => 0) = x := by
  simp only [encU32BE, decU32BE]
  apply UInt32.toNat_inj.mp
  have h := x.toNat_lt
  simp [UInt32.toNat_ofNat, Nat.toUInt8]
  omega

theorem encU32BE_decU32BE (a b c d : UInt8) : encU32BE (decU32BE a b c d) = [a, b, c, d] := by
  simp only [encU32BE, decU32BE]
  have ha := a.toNat_lt; have hb := b.toNat_lt; have hc := c.toNat_lt; have hd := d.toNat_lt
  simp only [List.cons.injEq, and_true]
  refine ⟨?_, ?_, ?_, ?_⟩ <;> apply UInt8.toNat_inj.mp <;>
    simp [UInt32.toNat_ofNat, Nat.toUInt8] <;> omega

theorem encU32BE_length (x : UInt32) : (encU32BE x).length = 4 := rfl
theorem encU32LE_length (x : UInt32) : (encU32LE x).length = 4 := rfl
theorem encU64BE_length (x : UInt64) : (encU64BE x).length = 8 := rfl
theorem encU64LE_length (x : UInt64) : (encU64LE x).length = 8 := rfl

theorem encU32LE_eq_reverse (x : UInt32) : encU32LE x = (encU32BE x).reverse := rfl

theorem encU32LE_decU32LE (a b c d : UInt8) : encU32LE (decU32LE a b c d) = [a, b, c, d] := by
  rw [encU32LE_eq_reverse, decU32LE, encU32BE_decU32BE]; rfl

theorem join64_hi_lo (x : UInt64) : join64 (hi32 x) (lo32 x) = x := by
  simp only [join64, hi32, lo32]
  apply UInt64.toNat_inj.mp
  have h := x.toNat_lt
  simp [UInt64.toNat_ofNat, UInt32.toNat_ofNat]
  try omega

theorem hi32_join64 (h l : UInt32) : hi32 (join64 h l) = h := by
  simp only [join64, hi32]
  apply UInt32.toNat_inj.mp
  have h1 := h.toNat_lt; have h2 := l.toNat_lt
  simp [UInt64.toNat_ofNat, UInt32.toNat_ofNat]
  try omega

theorem lo32_join64 (h l : UInt32) : lo32 (join64 h l) = l := by
  simp only [join64, lo32]
  apply UInt32.toNat_inj.mp
  have h1 := h.toNat_lt; have h2 := l.toNat_lt
  simp [UInt64.toNat_ofNat, UInt32.toNat_ofNat]
  try omega

/-- Every 32-bit value is the decoding of its four encoded bytes. -/
theorem encU32BE_cases (x : UInt32) :
    ∃ a b c d, encU32BE x = [a, b, c, d] ∧ decU32BE a b c d = x := by
  refine ⟨_, _, _, _, rfl, ?_⟩
  exact decU32BE_encU32BE x

theorem encU32LE_cases (x : UInt32) :
    ∃ a b c d, encU32LE x = [a, b, c, d] ∧ decU32LE a b c d = x := by
  obtain ⟨a, b, c, d, h, hd⟩ := encU32BE_cases x
  refine ⟨d, c, b, a, ?_, ?_⟩
  · rw [encU32LE_eq_reverse, h]; rfl
  · simpa [decU32LE] using hd

/-- Signed reading of a 64-bit pattern (C++ `int64_t`). -/
def s64 (x : UInt64) : Int := if x.toNat < 9223372036854775808 then x.toNat else (x.toNat : Int) - 18446744073709551616
/-- Signed reading of a 32-bit pattern (C++ `int32_t`). -/
def s32 (x : UInt32) : Int := if x.toNat < 2147483648 then x.toNat else (x.toNat : Int) - 4294967296
/-- The 64-bit pattern of an integer (wraps; callers prove or check range). -/
def u64OfInt (i : Int) : UInt64 := UInt64.ofNat (i % 18446744073709551616).toNat
def u32OfInt (i : Int) : UInt32 := UInt32.ofNat (i % 4294967296).toNat

theorem s64_range (x : UInt64) : -9223372036854775808 ≤ s64 x ∧ s64 x < 9223372036854775808 := by
  have := x.toNat_lt
  unfold s64; split <;> omega

theorem u64OfInt_s64 (x : UInt64) : u64OfInt (s64 x) = x := by
  apply UInt64.toNat_inj.mp
  have := x.toNat_lt
  unfold u64OfInt s64
  split <;> simp [UInt64.toNat_ofNat] <;> omega

theorem s64_u64OfInt (i : Int) (h1 : -9223372036854775808 ≤ i) (h2 : i < 9223372036854775808) :
    s64 (u64OfInt i) = i := by
  unfold u64OfInt s64
  simp [UInt64.toNat_ofNat]
  split <;> omega

theorem u32OfInt_s32 (x : UInt32) : u32OfInt (s32 x) = x := by
  apply UInt32.toNat_inj.mp
  have := x.toNat_lt
  unfold u32OfInt s32
  split <;> simp [UInt32.toNat_ofNat] <;> omega

theorem s32_u32OfInt (i : Int) (h1 : -2147483648 ≤ i) (h2 : i < 2147483648) :
    s32 (u32OfInt i) = i := by
  unfold u32OfInt s32
  simp [UInt32.toNat_ofNat]
  split <;> omega

end Prim
end EngineModel
