/-
Outcome alphabet shared by every modelled operation and by the C++ harness.
`ok` = normal return, `throw` = an exception derived from std::exception
(coarse class), `ub` = undefined behaviour the sanitizer build would abort on.
-/
namespace EngineModel

inductive Exn where
  | invalid_argument | length_or_alloc | out_of_range | logic_error
  | runtime_error | system_error | sqlite_error | bad_optional_access
  | dj (name : String)
  deriving Repr, DecidableEq, Inhabited

def Exn.toString : Exn → String
  | .invalid_argument => "invalid_argument"
  | .length_or_alloc => "length_or_alloc"
  | .out_of_range => "out_of_range"
  | .logic_error => "logic_error"
  | .runtime_error => "runtime_error"
  | .system_error => "system_error"
  | .sqlite_error => "sqlite_error"
  | .bad_optional_access => "bad_optional_access"
  | .dj n => n

inductive Ub where
  | oob_read | oob_write | oob_index | empty_optional | signed_overflow
  | float_cast_range | div_zero | bad_zlib_region | nontermination
  deriving Repr, DecidableEq, Inhabited

def Ub.toString : Ub → String
  | .oob_read => "oob_read" | .oob_write => "oob_write" | .oob_index => "oob_index"
  | .empty_optional => "empty_optional" | .signed_overflow => "signed_overflow"
  | .float_cast_range => "float_cast_range" | .div_zero => "div_zero"
  | .bad_zlib_region => "bad_zlib_region" | .nontermination => "nontermination"

inductive Res (α : Type) where
  | ok (a : α)
  | throw (e : Exn)
  | ub (u : Ub)
  deriving Repr, DecidableEq, Inhabited

namespace Res

@[inline] def bind {α β} (x : Res α) (f : α → Res β) : Res β :=
  match x with
  | ok a => f a
  | throw e => throw e
  | ub u => ub u

instance : Monad Res where
  pure := ok
  bind := bind

@[simp] theorem bind_ok {α β} (a : α) (f : α → Res β) : (ok a >>= f) = f a := rfl
@[simp] theorem bind_throw {α β} (e : Exn) (f : α → Res β) : (throw e >>= f) = throw e := rfl
@[simp] theorem bind_ub {α β} (u : Ub) (f : α → Res β) : (ub u >>= f) = ub u := rfl
@[simp] theorem pure_eq {α} (a : α) : (pure a : Res α) = ok a := rfl

def isUb {α} : Res α → Bool
  | ub _ => true
  | _ => false

def isOk {α} : Res α → Bool
  | ok _ => true
  | _ => false

def toOption {α} : Res α → Option α
  | ok a => some a
  | _ => none

/-- Forget which exception class was thrown (the properties only ask for
"an exception derived from std::exception"). -/
def coarse {α} : Res α → Res α
  | ok a => ok a
  | throw _ => throw .invalid_argument
  | ub u => ub u

def render {α} (f : α → String) : Res α → String
  | ok a => let s := f a; if s.isEmpty then "ok" else "ok " ++ s
  | throw e => "throw " ++ e.toString
  | ub u => "ub " ++ u.toString

end Res
end EngineModel
