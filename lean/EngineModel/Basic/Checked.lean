/-
Checked signed arithmetic: the C++ computes in `int64_t` / `int`; a result outside the
type's range is undefined behaviour (`ub signed_overflow`, what UBSan reports).  The Model
uses these at every place where the C++ adds, subtracts or multiplies signed values whose
range is not bounded by their types alone, so that "the guards prevent the overflow" is a
theorem about the Model and not a property of unbounded `Int`.
-/
import EngineModel.Basic.Res

namespace EngineModel
namespace Chk

def in64 (x : Int) : Prop := -9223372036854775808 ≤ x ∧ x ≤ 9223372036854775807
def in32 (x : Int) : Prop := -2147483648 ≤ x ∧ x ≤ 2147483647

instance (x : Int) : Decidable (in64 x) := by unfold in64; infer_instance
instance (x : Int) : Decidable (in32 x) := by unfold in32; infer_instance

/-- the value as an `int64_t` result -/
def i64 (x : Int) : Res Int := if in64 x then .ok x else .ub .signed_overflow
/-- the value as an `int` result -/
def i32 (x : Int) : Res Int := if in32 x then .ok x else .ub .signed_overflow

def add64 (a b : Int) : Res Int := i64 (a + b)
def sub64 (a b : Int) : Res Int := i64 (a - b)
def mul64 (a b : Int) : Res Int := i64 (a * b)
def add32 (a b : Int) : Res Int := i32 (a + b)
def sub32 (a b : Int) : Res Int := i32 (a - b)

theorem i64_ok {x : Int} (h : in64 x) : i64 x = .ok x := by simp [i64, h]
theorem i32_ok {x : Int} (h : in32 x) : i32 x = .ok x := by simp [i32, h]
theorem i64_ub {x : Int} (h : ¬ in64 x) : i64 x = .ub .signed_overflow := by simp [i64, h]
theorem i32_ub {x : Int} (h : ¬ in32 x) : i32 x = .ub .signed_overflow := by simp [i32, h]

theorem add64_ok {a b : Int} (h : in64 (a + b)) : add64 a b = .ok (a + b) := i64_ok h
theorem sub64_ok {a b : Int} (h : in64 (a - b)) : sub64 a b = .ok (a - b) := i64_ok h
theorem mul64_ok {a b : Int} (h : in64 (a * b)) : mul64 a b = .ok (a * b) := i64_ok h
theorem add32_ok {a b : Int} (h : in32 (a + b)) : add32 a b = .ok (a + b) := i32_ok h
theorem sub32_ok {a b : Int} (h : in32 (a - b)) : sub32 a b = .ok (a - b) := i32_ok h

/-- The only outcomes of a checked operation: the exact result, or `ub signed_overflow`. -/
theorem i64_cases (x : Int) : (in64 x ∧ i64 x = .ok x) ∨ (¬ in64 x ∧ i64 x = .ub .signed_overflow) := by
  by_cases h : in64 x
  · exact Or.inl ⟨h, i64_ok h⟩
  · exact Or.inr ⟨h, i64_ub h⟩

theorem i32_cases (x : Int) : (in32 x ∧ i32 x = .ok x) ∨ (¬ in32 x ∧ i32 x = .ub .signed_overflow) := by
  by_cases h : in32 x
  · exact Or.inl ⟨h, i32_ok h⟩
  · exact Or.inr ⟨h, i32_ub h⟩

example : mul64 24 576460752303423488 = .ub .signed_overflow := by decide
example : add64 9223372036854775807 1 = .ub .signed_overflow := by decide
example : sub32 2147483647 (-2147483648) = .ub .signed_overflow := by decide
example : mul64 24 32768 = .ok 786432 := by decide

end Chk
end EngineModel
