/-
IEEE-754 binary64 values as bit patterns, with the comparisons the C++ code
performs on doubles defined *exactly* on the bits (no floating-point
arithmetic is needed for them).  The driver cross-checks these definitions
against the hardware on every run (`selftest.f64`).
-/
namespace EngineModel
namespace F64

abbrev Bits := UInt64

def expOf (x : Bits) : Nat := x.toNat / 4503599627370496 % 2048
def manOf (x : Bits) : Nat := x.toNat % 4503599627370496
def signOf (x : Bits) : Bool := decide (9223372036854775808 ≤ x.toNat)

def isNaN (x : Bits) : Bool := expOf x == 2047 && manOf x != 0

/-- Order-preserving integer key of a non-NaN double (both zeros map to 0). -/
def key (x : Bits) : Int :=
  if x.toNat < 9223372036854775808 then (x.toNat : Int) else -((x.toNat : Int) - 9223372036854775808)

/-- C++ `a < b` on doubles. -/
def lt (a b : Bits) : Bool := !isNaN a && !isNaN b && decide (key a < key b)
/-- C++ `a <= b`. -/
def le (a b : Bits) : Bool := !isNaN a && !isNaN b && decide (key a ≤ key b)
/-- C++ `a == b`. -/
def eq (a b : Bits) : Bool := !isNaN a && !isNaN b && decide (key a = key b)
/-- C++ `a != b`. -/
def ne (a b : Bits) : Bool := !eq a b

def zero : Bits := 0
def negZero : Bits := 0x8000000000000000
def negOne : Bits := 0xbff0000000000000
def one : Bits := 0x3ff0000000000000

/-- C++ `x == 0` / `x != 0` (true of both zeros). -/
def isZero (x : Bits) : Bool := x == zero || x == negZero

theorem key_zero : key zero = 0 := by decide
theorem isNaN_zero : isNaN zero = false := by decide

theorem key_eq_zero_iff (x : Bits) : key x = 0 ↔ (x = zero ∨ x = negZero) := by
  have h := x.toNat_lt
  constructor
  · intro hk
    unfold key at hk
    split at hk
    · left; apply UInt64.toNat_inj.mp; simp [zero]; omega
    · right; apply UInt64.toNat_inj.mp; simp [negZero]; omega
  · rintro (rfl | rfl) <;> decide

theorem isZero_iff_eq_zero (x : Bits) : isZero x = eq x zero := by
  unfold isZero eq
  rw [isNaN_zero, key_zero]
  by_cases h0 : x = zero
  · subst h0; decide
  · by_cases h1 : x = negZero
    · subst h1; decide
    · have hk : ¬ key x = 0 := fun h => by
        rcases (key_eq_zero_iff x).mp h with h | h
        · exact h0 h
        · exact h1 h
      simp [h0, h1, hk]

/-- `x == -1.0` holds for exactly one bit pattern. -/
theorem eq_negOne_iff (x : Bits) : eq x negOne = true ↔ x = negOne := by
  constructor
  · intro h
    unfold eq isNaN key expOf manOf negOne at h
    have hx := x.toNat_lt
    simp at h
    obtain ⟨_, h⟩ := h
    apply UInt64.toNat_inj.mp
    unfold negOne
    simp
    split at h <;> omega
  · intro h; subst h; decide

end F64
end EngineModel
