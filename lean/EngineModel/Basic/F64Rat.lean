/-
The exact rational value of a finite IEEE-754 binary64 bit pattern (every
finite double is a dyadic rational).  Mathlib-free (Lean core `Rat`), executable:
the driver uses it to feed doubles to the exact-rational runs, the proofs
(`Proofs/F64Val.lean`) relate it to the bit-exact `static_cast<int64_t>`.
-/
import EngineModel.Basic.F64

namespace EngineModel
namespace F64

/-- Neither infinite nor NaN. -/
def isFinite (x : Bits) : Bool := expOf x != 2047

/-- Magnitude of a finite double. -/
def magRat (x : Bits) : Rat :=
  if expOf x = 0 then ((manOf x : Nat) : Rat) / ((2 ^ 1074 : Nat) : Rat)
  else if expOf x ≥ 1075 then (((manOf x + 4503599627370496) * 2 ^ (expOf x - 1075) : Nat) : Rat)
  else ((manOf x + 4503599627370496 : Nat) : Rat) / ((2 ^ (1075 - expOf x) : Nat) : Rat)

/-- The value of a finite double (meaningless when `isFinite x = false`). -/
def toRat (x : Bits) : Rat := if signOf x then -magRat x else magRat x

end F64
end EngineModel
