/-
Model for C17: the generic algorithm of src/djinterop/engine/schema/schema_validate_utils.hpp.

Every `verify_*` function of every schema version is a sequence of blocks

    { <query> items{db, …};                       -- rows go into a std::set ordered by one key
      auto iter = items.begin(), end = items.end();
      validate(iter, end, <expected entry 1>); ++iter;
      …
      validate(iter, end, <expected entry n>); ++iter;
      validate_no_more(iter, end); }

* `toSet`  = the `std::set<entry>` built by the query wrappers (`master_list`,
  `table_info`, `index_list`, `index_info`): insertion in row order, ordered by the key
  (`item_name` / `col_name` / `index_name` / `ordinal`), an entry whose key is already
  present is not inserted;
* `walk`   = the `validate … ++iter … validate_no_more` sequence: `validate` throws
  `database_inconsistency` when the iterator is at the end or any compared field differs
  from the expectation (for master-list entries only the name is compared; for the other
  three kinds every field of the row that the wrapper keeps), `validate_no_more` throws
  when the iterator is not at the end; `noMore = false` models a block whose
  terminator is absent;
* `DbExp`  = the hand-written expectation tables of one version for one database file;
* `verifyDb` = the whole `verify()` for that file: `true` = returns, `false` = throws
  `database_inconsistency`.
-/
import EngineModel.Spec.Catalog

namespace EngineModel.Spec.Validator
open EngineModel.Spec.SchemaDump (Str)
open EngineModel.Spec.Catalog

/-- `std::string::operator<` (bytewise lexicographic). -/
def ltStr : Str → Str → Bool
  | [], [] => false
  | [], _ :: _ => true
  | _ :: _, [] => false
  | a :: as, b :: bs => decide (a.toNat < b.toNat) || (a.toNat == b.toNat && ltStr as bs)

def ltInt (a b : Int) : Bool := decide (a < b)

section generic
variable {α κ : Type}

/-- `std::set::insert` for a set ordered by `key` under `lt`. -/
def insertU (lt : κ → κ → Bool) (key : α → κ) (a : α) : List α → List α
  | [] => [a]
  | b :: bs =>
    if lt (key a) (key b) then a :: b :: bs
    else if lt (key b) (key a) then b :: insertU lt key a bs
    else b :: bs

/-- The `std::set` holding the rows of a query, in iteration order. -/
def toSet (lt : κ → κ → Bool) (key : α → κ) (rows : List α) : List α :=
  rows.foldl (fun acc a => insertU lt key a acc) []

/-- The `validate`/`++iter` sequence over `exp`, closed by `validate_no_more` iff `noMore`. -/
def walk [DecidableEq α] (noMore : Bool) : List α → List α → Bool
  | [], [] => true
  | [], _ :: _ => !noMore
  | _ :: _, [] => false
  | e :: es, a :: as => decide (a = e) && walk noMore es as

end generic

/-! ### the expectation tables of one schema version (one database file) -/

structure IdxColsExp where
  index : Str
  cols : List IdxCol
  noMore : Bool
  deriving DecidableEq, Repr, Inhabited

structure TableExp where
  name : Str
  cols : List Col
  colsNoMore : Bool
  idxs : List IdxE
  idxsNoMore : Bool
  idxCols : List IdxColsExp
  deriving DecidableEq, Repr, Inhabited

structure DbExp where
  tables : List Str
  tablesNoMore : Bool
  views : List Str
  viewsNoMore : Bool
  perTable : List TableExp
  deriving DecidableEq, Repr, Inhabited

def setNames (l : List Str) : List Str := toSet ltStr id l
def setCols (l : List Col) : List Col := toSet ltStr (·.name) l
def setIdxs (l : List IdxE) : List IdxE := toSet ltStr (·.name) l
def setIdxCols (l : List IdxCol) : List IdxCol := toSet ltInt (·.seqno) l

def verifyIdxCols (db : Db) (x : IdxColsExp) : Bool :=
  walk x.noMore x.cols (setIdxCols (indexInfo db x.index))

def verifyTable (db : Db) (te : TableExp) : Bool :=
  walk te.colsNoMore te.cols (setCols (tableInfo db te.name)) &&
  walk te.idxsNoMore te.idxs (setIdxs (indexList db te.name)) &&
  te.idxCols.all (verifyIdxCols db)

/-- `verify()` on one database file: `true` = returns normally. -/
def verifyDb (E : DbExp) (db : Db) : Bool :=
  walk E.tablesNoMore E.tables (setNames (tableNames db)) &&
  walk E.viewsNoMore E.views (setNames db.views) &&
  E.perTable.all (verifyTable db)

/-- Every block is closed by `validate_no_more`. -/
def allNoMore (E : DbExp) : Bool :=
  E.tablesNoMore && E.viewsNoMore &&
  E.perTable.all fun te => te.colsNoMore && te.idxsNoMore && te.idxCols.all (·.noMore)

/-- Every listed table that is not SQLite's own has its columns and indices listed, and
every listed index has its columns listed. -/
def covers (E : DbExp) : Bool :=
  (E.tables.filter fun t => !isInternal t).all (fun t => E.perTable.any (·.name == t)) &&
  E.perTable.all fun te => te.idxs.all fun i => te.idxCols.any (·.index == i.name)

/-- The expectation tables are *closed*: nothing is left open and nothing listed is left undescribed. -/
def closed (E : DbExp) : Bool := allNoMore E && covers E

/-- The closed expectation tables that describe a given catalog (what a complete
hand-written validator for a library with this catalog contains). -/
def expOfTable (t : Table) : TableExp :=
  { name := t.name
    cols := setCols t.cols, colsNoMore := true
    idxs := setIdxs (t.idxs.map (·.entry)), idxsNoMore := true
    idxCols := t.idxs.map fun i => ⟨i.entry.name, setIdxCols i.cols, true⟩ }

def expOf (db : Db) : DbExp :=
  { tables := setNames (tableNames db), tablesNoMore := true
    views := setNames db.views, viewsNoMore := true
    perTable := (userTables db).map expOfTable }

/-! ### structural equality of catalogs, stated without the walk -/

/-- `c'` has the structure of `c`: the same tables and views by name, and for every table
of `c` that is not SQLite's own the same columns (name, type, notnull, default, pk), the
same indices (name, unique, origin, partial) and for each of them the same ranked columns
— each compared as the key-ordered sets the validator builds. -/
def sameCat (c c' : Db) : Bool :=
  decide (setNames (tableNames c') = setNames (tableNames c)) &&
  decide (setNames c'.views = setNames c.views) &&
  (userTables c).all fun t =>
    decide (setCols (tableInfo c' t.name) = setCols t.cols) &&
    decide (setIdxs (indexList c' t.name) = setIdxs (t.idxs.map (·.entry))) &&
    t.idxs.all fun i => decide (setIdxCols (indexInfo c' i.entry.name) = setIdxCols i.cols)

/-- An independent, order-free reading of "deviates", used by the tie as a second opinion:
plain set comparison at every level (no key-ordered sets, no walk). -/
def deviatesPlain (c c' : Db) : Bool :=
  !(sameMembers (tableNames c) (tableNames c') && sameMembers c.views c'.views &&
    (userTables c).all fun t =>
      sameMembers t.cols (tableInfo c' t.name) &&
      sameMembers (t.idxs.map (·.entry)) (indexList c' t.name) &&
      t.idxs.all fun i => sameMembers i.cols (indexInfo c' i.entry.name))

end EngineModel.Spec.Validator
