/-
Spec for C08: crate contents as a relation between live crates and live tracks.
`tracks(c)` = the tracks added to c and not since removed; `containing_crates(t)`
is the converse.  Order of listing is not part of C08 (C09 covers entry order on
2.x); compare as sets.
-/
import EngineModel.Spec.Forest

namespace EngineModel.Spec.Members

abbrev CrateId := Int
abbrev TrackId := Int

structure State where
  crates : List CrateId          -- live crates
  tracks : List TrackId          -- live tracks
  pairs : List (CrateId × TrackId)   -- membership, no duplicates, insertion order
  deriving Repr, DecidableEq, Inhabited

def empty : State := ⟨[], [], []⟩

inductive Op where
  | newCrate (c : CrateId)                 -- a crate came into existence (any create_* call), id from the implementation
  | dropCrates (cs : List CrateId)         -- crates ceased to exist (remove_crate of a subtree)
  | newTrack (t : TrackId)
  | dropTrack (t : TrackId)
  | add (c : CrateId) (t : TrackId)
  | remove (c : CrateId) (t : TrackId)
  | clear (c : CrateId)
  deriving Repr, DecidableEq, Inhabited

inductive Verdict where
  | accept (s' : State)
  | reject
  | either (s' : State)
  deriving Repr, DecidableEq, Inhabited

def tracksOf (s : State) (c : CrateId) : List TrackId := (s.pairs.filter (·.1 == c)).map (·.2)
def cratesOf (s : State) (t : TrackId) : List CrateId := (s.pairs.filter (·.2 == t)).map (·.1)

def step (s : State) : Op → Verdict
  | .newCrate c => .accept { s with crates := s.crates ++ [c] }
  | .dropCrates cs =>
    .accept { s with crates := s.crates.filter (fun c => !cs.contains c),
                     pairs := s.pairs.filter (fun p => !cs.contains p.1) }
  | .newTrack t => .accept { s with tracks := s.tracks ++ [t] }
  | .dropTrack t =>
    if !s.tracks.contains t then .either s
    else .accept { s with tracks := s.tracks.filter (· != t), pairs := s.pairs.filter (·.2 != t) }
  | .add c t =>
    if !s.crates.contains c then .reject
    else if !s.tracks.contains t then .either s        -- unknown track id: may be refused; must not become visible
    else if s.pairs.contains (c, t) then .accept s     -- adding a present track is a no-op
    else .accept { s with pairs := s.pairs ++ [(c, t)] }
  | .remove c t =>
    if !s.crates.contains c then .either s
    else .accept { s with pairs := s.pairs.filter (· != (c, t)) }   -- removing an absent track is a no-op
  | .clear c =>
    if !s.crates.contains c then .either s
    else .accept { s with pairs := s.pairs.filter (·.1 != c) }

/-- The state after a call with verdict `v` that succeeded (`true`) or threw (`false`);
`none` when the outcome contradicts the verdict. -/
def Verdict.next (v : Verdict) (s : State) (succeeded : Bool) : Option State :=
  match v, succeeded with
  | .accept s', true => some s'
  | .accept _, false => none
  | .reject, true => none
  | .reject, false => some s
  | .either s', true => some s'
  | .either _, false => some s

end EngineModel.Spec.Members
