/-
`bytes% "<hex>"` elaborates to the explicit `List Char` literal
`[Char.ofNat b₀, Char.ofNat b₁, …]` of the bytes written in hex — built directly as a
term (one `List.cons` per byte), so that a generated file can hold ~10⁵ characters
without the cost of elaborating that many numerals one by one.  Nothing is trusted here:
the result is an ordinary term, type-checked by the kernel like any other.
-/
import Lean
open Lean Elab Term

namespace EngineModel.Spec.BytesLit

def hexVal (c : Char) : Option Nat :=
  if '0' ≤ c ∧ c ≤ '9' then some (c.toNat - '0'.toNat)
  else if 'a' ≤ c ∧ c ≤ 'f' then some (c.toNat - 'a'.toNat + 10)
  else none

def parseHex : List Char → Array Nat → Option (Array Nat)
  | [], acc => some acc
  | [_], _ => none
  | a :: b :: r, acc =>
    match hexVal a, hexVal b with
    | some x, some y => parseHex r (acc.push (16 * x + y))
    | _, _ => none

elab "bytes% " s:str : term => do
  match parseHex s.getString.toList #[] with
  | none => throwError "bytes%: not an even-length lower-case hex string"
  | some bytes =>
    let charTy := Lean.mkConst ``Char
    let mut e := mkApp (Lean.mkConst ``List.nil [Level.zero]) charTy
    for b in bytes.reverse do
      let c := mkApp (Lean.mkConst ``Char.ofNat) (mkRawNatLit b)
      e := mkApp3 (Lean.mkConst ``List.cons [Level.zero]) charTy c e
    return e

end EngineModel.Spec.BytesLit
