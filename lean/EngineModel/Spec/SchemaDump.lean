/-
Spec for C12 (second half): what is read out of a database — `sqlite_master`,
`PRAGMA table_info` of every table and view, `PRAGMA index_list` / `index_info`
of every table — and `schemaEq`, the comparison of two such dumps "modulo
whitespace and identifier quoting": stored DDL is compared through
`SqlCanon.canonChars`, everything else literally; `sqlite_master` rows, tables
and indices are compared as sets, the columns of a table and of an index as
ordered lists.

Strings are `List Char` so that the kernel can evaluate the comparison.
-/
import EngineModel.Spec.SqlCanon

namespace EngineModel.Spec.SchemaDump
open EngineModel.Spec.SqlCanon

abbrev Str := List Char

structure MasterRow where
  db : Str          -- "main" | "music" | "perfdata"
  type : Str        -- table | index | view | trigger
  name : Str
  tbl : Str
  sql : Option Str  -- NULL for automatic indices
  deriving DecidableEq, Repr, Inhabited

structure Column where
  name : Str
  type : Str
  notnull : Int
  dflt : Option Str
  pk : Int
  deriving DecidableEq, Repr, Inhabited

structure TableCols where
  db : Str
  tbl : Str
  cols : List Column      -- in `cid` order
  deriving DecidableEq, Repr, Inhabited

structure IndexCol where
  seqno : Int
  name : Option Str       -- NULL for rowid / expression columns
  deriving DecidableEq, Repr, Inhabited

structure Index where
  name : Str
  unique : Int
  origin : Str            -- c | u | pk
  partialIdx : Int
  cols : List IndexCol    -- in `seqno` order
  deriving DecidableEq, Repr, Inhabited

structure TableIdx where
  db : Str
  tbl : Str
  idx : List Index
  deriving DecidableEq, Repr, Inhabited

structure Dump where
  master : List MasterRow
  tables : List TableCols
  indexes : List TableIdx
  deriving DecidableEq, Repr, Inhabited

/-- A `sqlite_master` row with its DDL canonicalised. -/
structure CMasterRow where
  db : Str
  type : Str
  name : Str
  tbl : Str
  sql : Option (List Token)
  deriving DecidableEq, Repr, Inhabited

def canonRow (r : MasterRow) : CMasterRow :=
  ⟨r.db, r.type, r.name, r.tbl, r.sql.map canonChars⟩

structure CDump where
  master : List CMasterRow
  tables : List TableCols
  indexes : List (Str × Str × Index)    -- (db, table, index)
  deriving DecidableEq, Repr, Inhabited

def canonDump (d : Dump) : CDump :=
  ⟨d.master.map canonRow, d.tables, d.indexes.flatMap fun t => t.idx.map fun i => (t.db, t.tbl, i)⟩

def subsetB {α} [DecidableEq α] (xs ys : List α) : Bool := xs.all fun x => ys.contains x

/-- Equal as sets (and of equal size, so that a duplicated entry is seen). -/
def sameSet {α} [DecidableEq α] (xs ys : List α) : Bool :=
  subsetB xs ys && subsetB ys xs && xs.length == ys.length

def cdumpEq (a b : CDump) : Bool :=
  sameSet a.master b.master && sameSet a.tables b.tables && sameSet a.indexes b.indexes

/-- The comparison of C12. -/
def schemaEq (a b : Dump) : Bool := cdumpEq (canonDump a) (canonDump b)

/-! ### a readable account of the first differences (for replay files) -/

def showStr (s : Str) : String := String.ofList s

def diffList {α} [DecidableEq α] (tag : String) (f : α → String) (xs ys : List α) : List String :=
  (xs.filter fun x => !ys.contains x).map (fun x => s!"{tag}:only-left:{f x}") ++
  (ys.filter fun y => !xs.contains y).map (fun y => s!"{tag}:only-right:{f y}")

def cdumpDiff (a b : CDump) : List String :=
  diffList "master" (fun r => s!"{showStr r.db}.{showStr r.type}.{showStr r.name}") a.master b.master ++
  diffList "columns" (fun t => s!"{showStr t.db}.{showStr t.tbl}") a.tables b.tables ++
  diffList "index" (fun t => s!"{showStr t.1}.{showStr t.2.1}.{showStr t.2.2.name}") a.indexes b.indexes ++
  (if a.master.length != b.master.length then ["master:size"] else []) ++
  (if a.tables.length != b.tables.length then ["columns:size"] else []) ++
  (if a.indexes.length != b.indexes.length then ["index:size"] else [])

end EngineModel.Spec.SchemaDump
