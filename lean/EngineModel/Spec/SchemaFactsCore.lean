/-
C12, kernel decision of the finite table (thorough tier).

`Gen/SchemaFacts.lean` (emitted by tools/props/C12.py from the catalogs read back from the
really created and the hydrated reference libraries) holds the facts in a *shared* form so
that the kernel lexes every distinct DDL text once:

  texts   : the distinct DDL texts of all catalogs (explicit `List Char` literals, `bytes%`);
  cls     : for every text the index of the first text with the same `canon` (claimed by the
            generator, CHECKED by the kernel: `classesOk texts cls`);
  dumps   : the distinct catalogs, a `sqlite_master` row pointing at its DDL text by index;
  pairs   : (created, reference) catalogs that belong together.

  strs    : the distinct names / types / defaults (explicit literals); catalogs refer to them by index.

`schemaEqIdx cls a b` compares two such catalogs on class indices and string indices;
`schemaEqIdx_sound` (Proofs/SchemaFacts.lean) lifts it to the real comparison:
  classesOk texts cls → schemaEqIdx cls a b → schemaEq (toDump texts strs a) (toDump texts strs b).
-/
import EngineModel.Spec.SchemaDump

namespace EngineModel.Spec.SchemaFacts
open EngineModel.Spec.SqlCanon EngineModel.Spec.SchemaDump

/-- A name (database label, object type, object / column / index name, declared type,
default text …) is an index into the table `strs` of distinct strings, so that the kernel
compares catalogs by comparing numbers. -/
abbrev NStr := Nat

def toStr (strs : List Str) (s : NStr) : Str := strs.getD s []

structure IRow where
  db : NStr
  type : NStr
  name : NStr
  tbl : NStr
  sql : Option Nat          -- index into `texts`; none = NULL (automatic index)
  deriving DecidableEq, Repr, Inhabited

structure ICol where
  name : NStr
  type : NStr
  notnull : Int
  dflt : Option NStr
  pk : Int
  deriving DecidableEq, Repr, Inhabited

structure ITable where
  db : NStr
  tbl : NStr
  cols : List ICol
  deriving DecidableEq, Repr, Inhabited

structure IIdxCol where
  seqno : Int
  name : Option NStr
  deriving DecidableEq, Repr, Inhabited

structure IIndex where
  name : NStr
  unique : Int
  origin : NStr
  partialIdx : Int
  cols : List IIdxCol
  deriving DecidableEq, Repr, Inhabited

structure ITableIdx where
  db : NStr
  tbl : NStr
  idx : List IIndex
  deriving DecidableEq, Repr, Inhabited

structure IDump where
  master : List IRow
  tables : List ITable
  indexes : List ITableIdx
  deriving DecidableEq, Repr, Inhabited

/-! ### back to the catalog dumps of Spec/SchemaDump.lean -/

def textAt (texts : List Str) (i : Nat) : Str := texts.getD i []

def toRow (texts strs : List Str) (r : IRow) : MasterRow :=
  ⟨toStr strs r.db, toStr strs r.type, toStr strs r.name, toStr strs r.tbl, r.sql.map (textAt texts)⟩

def toCol (strs : List Str) (c : ICol) : Column :=
  ⟨toStr strs c.name, toStr strs c.type, c.notnull, c.dflt.map (toStr strs), c.pk⟩
def toTable (strs : List Str) (t : ITable) : TableCols := ⟨toStr strs t.db, toStr strs t.tbl, t.cols.map (toCol strs)⟩
def toIdxCol (strs : List Str) (c : IIdxCol) : IndexCol := ⟨c.seqno, c.name.map (toStr strs)⟩
def toIndex (strs : List Str) (i : IIndex) : Index :=
  ⟨toStr strs i.name, i.unique, toStr strs i.origin, i.partialIdx, i.cols.map (toIdxCol strs)⟩
def toTableIdx (strs : List Str) (t : ITableIdx) : TableIdx := ⟨toStr strs t.db, toStr strs t.tbl, t.idx.map (toIndex strs)⟩

def toDump (texts strs : List Str) (d : IDump) : Dump :=
  ⟨d.master.map (toRow texts strs), d.tables.map (toTable strs), d.indexes.map (toTableIdx strs)⟩

/-! ### the comparison on class indices -/

def clsOf (cls : List Nat) (i : Nat) : Nat := cls.getD i i

structure CRowI where
  db : NStr
  type : NStr
  name : NStr
  tbl : NStr
  cls : Option Nat
  deriving DecidableEq, Repr, Inhabited

def classRow (cls : List Nat) (r : IRow) : CRowI := ⟨r.db, r.type, r.name, r.tbl, r.sql.map (clsOf cls)⟩

def flatIdx (d : IDump) : List (NStr × NStr × IIndex) :=
  d.indexes.flatMap fun t => t.idx.map fun i => (t.db, t.tbl, i)

def schemaEqIdx (cls : List Nat) (a b : IDump) : Bool :=
  sameSet (a.master.map (classRow cls)) (b.master.map (classRow cls)) &&
  sameSet a.tables b.tables &&
  sameSet (flatIdx a) (flatIdx b)

/-- The class table is right: it has one entry per text, and every text has the same
`canon` as the text its class index names.  (Evaluated by the kernel: this is where every
distinct DDL text is lexed.) -/
def classesOk (texts : List Str) (cls : List Nat) : Bool :=
  cls.length == texts.length &&
  (List.range texts.length).all fun i =>
    clsOf cls i == i || canonChars (textAt texts i) == canonChars (textAt texts (clsOf cls i))

/-- The coarsenings of `canon` beyond whitespace and quoting are not exercised by the data:
no text contains a comment (which `canon` drops like whitespace, as SQLite's tokenizer
does) or an unterminated quote (`junk`). -/
def tameLexeme : Lexeme → Bool
  | .lineComment _ _ => false
  | .blockComment _ _ => false
  | .junk _ => false
  | _ => true

def textsTame (texts : List Str) : Bool := texts.all fun t => (lex t).all tameLexeme

/-- No `--` and no `/*` anywhere in the text (so the lexer cannot have produced a comment). -/
def noCommentStart : List Char → Bool
  | [] => true
  | [_] => true
  | c :: d :: r => !((c == '-' && d == '-') || (c == '/' && d == '*')) && noCommentStart (d :: r)

def textsCommentFree (texts : List Str) : Bool := texts.all noCommentStart

/-- Row `k` of catalog `a` has no counterpart (same database, type, name, table and `canon`
of the DDL) in catalog `b`. -/
def noCounterpart (texts strs : List Str) (a b : IDump) (k : Nat) : Bool :=
  match a.master[k]? with
  | none => false
  | some r => b.master.all fun r' => canonRow (toRow texts strs r') != canonRow (toRow texts strs r)

/-- Look a catalog up by index (out of range = the empty catalog). -/
def dumpAt (dumps : List IDump) (i : Nat) : IDump := dumps.getD i ⟨[], [], []⟩

/-- The whole table: every listed pair of catalogs compares equal on class indices. -/
def tableOk (cls : List Nat) (dumps : List IDump) (pairs : List (Nat × Nat)) : Bool :=
  pairs.all fun p => schemaEqIdx cls (dumpAt dumps p.1) (dumpAt dumps p.2)

end EngineModel.Spec.SchemaFacts
