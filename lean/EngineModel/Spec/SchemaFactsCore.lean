/-
C12, kernel decision of the finite table (thorough tier).

`Gen/SchemaFacts.lean` (emitted by tools/props/C12.py from the catalogs read back from the
really created and the hydrated reference libraries) holds the facts in a *shared* form so
that the kernel lexes every distinct DDL text once:

  texts   : the distinct DDL texts of all catalogs (explicit `List Char` literals, `bytes%`);
  cls     : for every text the index of the first text with the same `canon` (claimed by the
            generator, CHECKED by the kernel: `classesOk texts cls`);
  dumps   : the distinct catalogs, a `sqlite_master` row pointing at its DDL text by index;
  pairs   : (created, reference) catalogs that belong together.

`schemaEqIdx cls a b` compares two such catalogs on class indices; `schemaEqIdx_sound`
(Proofs/SchemaFacts.lean) lifts it to the real comparison:
  classesOk texts cls → schemaEqIdx cls a b → schemaEq (toDump texts a) (toDump texts b).
-/
import EngineModel.Spec.SchemaDump

namespace EngineModel.Spec.SchemaFacts
open EngineModel.Spec.SqlCanon EngineModel.Spec.SchemaDump

abbrev NStr := List Nat

def toStr (s : NStr) : Str := s.map Char.ofNat

/-- A byte string given as its length and its little-endian base-256 number (the compact
form the generated facts use: one numeral per string instead of one per byte). -/
def dec : Nat → Nat → NStr
  | 0, _ => []
  | k + 1, n => (n % 256) :: dec k (n / 256)

structure IRow where
  db : NStr
  type : NStr
  name : NStr
  tbl : NStr
  sql : Option Nat          -- index into `texts`; none = NULL (automatic index)
  deriving DecidableEq, Repr, Inhabited

structure ICol where
  name : NStr
  type : NStr
  notnull : Int
  dflt : Option NStr
  pk : Int
  deriving DecidableEq, Repr, Inhabited

structure ITable where
  db : NStr
  tbl : NStr
  cols : List ICol
  deriving DecidableEq, Repr, Inhabited

structure IIdxCol where
  seqno : Int
  name : Option NStr
  deriving DecidableEq, Repr, Inhabited

structure IIndex where
  name : NStr
  unique : Int
  origin : NStr
  partialIdx : Int
  cols : List IIdxCol
  deriving DecidableEq, Repr, Inhabited

structure ITableIdx where
  db : NStr
  tbl : NStr
  idx : List IIndex
  deriving DecidableEq, Repr, Inhabited

structure IDump where
  master : List IRow
  tables : List ITable
  indexes : List ITableIdx
  deriving DecidableEq, Repr, Inhabited

/-! ### back to the catalog dumps of Spec/SchemaDump.lean -/

def textAt (texts : List Str) (i : Nat) : Str := texts.getD i []

def toRow (texts : List Str) (r : IRow) : MasterRow :=
  ⟨toStr r.db, toStr r.type, toStr r.name, toStr r.tbl, r.sql.map (textAt texts)⟩

def toCol (c : ICol) : Column := ⟨toStr c.name, toStr c.type, c.notnull, c.dflt.map toStr, c.pk⟩
def toTable (t : ITable) : TableCols := ⟨toStr t.db, toStr t.tbl, t.cols.map toCol⟩
def toIdxCol (c : IIdxCol) : IndexCol := ⟨c.seqno, c.name.map toStr⟩
def toIndex (i : IIndex) : Index := ⟨toStr i.name, i.unique, toStr i.origin, i.partialIdx, i.cols.map toIdxCol⟩
def toTableIdx (t : ITableIdx) : TableIdx := ⟨toStr t.db, toStr t.tbl, t.idx.map toIndex⟩

def toDump (texts : List Str) (d : IDump) : Dump :=
  ⟨d.master.map (toRow texts), d.tables.map toTable, d.indexes.map toTableIdx⟩

/-! ### the comparison on class indices -/

def clsOf (cls : List Nat) (i : Nat) : Nat := cls.getD i i

structure CRowI where
  db : NStr
  type : NStr
  name : NStr
  tbl : NStr
  cls : Option Nat
  deriving DecidableEq, Repr, Inhabited

def classRow (cls : List Nat) (r : IRow) : CRowI := ⟨r.db, r.type, r.name, r.tbl, r.sql.map (clsOf cls)⟩

def flatIdx (d : IDump) : List (NStr × NStr × IIndex) :=
  d.indexes.flatMap fun t => t.idx.map fun i => (t.db, t.tbl, i)

def schemaEqIdx (cls : List Nat) (a b : IDump) : Bool :=
  sameSet (a.master.map (classRow cls)) (b.master.map (classRow cls)) &&
  sameSet a.tables b.tables &&
  sameSet (flatIdx a) (flatIdx b)

/-- The class table is right: it has one entry per text, and every text has the same
`canon` as the text its class index names.  (Evaluated by the kernel: this is where every
distinct DDL text is lexed.) -/
def classesOk (texts : List Str) (cls : List Nat) : Bool :=
  cls.length == texts.length &&
  (List.range texts.length).all fun i =>
    clsOf cls i == i || canonChars (textAt texts i) == canonChars (textAt texts (clsOf cls i))

/-- Look a catalog up by index (out of range = the empty catalog). -/
def dumpAt (dumps : List IDump) (i : Nat) : IDump := dumps.getD i ⟨[], [], []⟩

/-- The whole table: every listed pair of catalogs compares equal on class indices. -/
def tableOk (cls : List Nat) (dumps : List IDump) (pairs : List (Nat × Nat)) : Bool :=
  pairs.all fun p => schemaEqIdx cls (dumpAt dumps p.1) (dumpAt dumps p.2)

end EngineModel.Spec.SchemaFacts
