/-
Transactions, RAII scopes and failure of a statement (C14, also used by C16/C10).

A public call of the library is, for this theory, the sequence of SQL
statements it steps on its one SQLite connection when nothing fails
(`List (Cmd α)`; the harness observes the kinds of that sequence, `List CmdKind`).

* `Conn`      — SQLite's connection: the committed database and, while a
                transaction is open, the working copy the connection sees.
                Statement-level atomicity: a statement either applies
                completely or fails with no effect (`stepStmt … = none`).
* `exec`      — a call under fault injection.  `fault = some k` makes the k-th
                *faultable* statement (BEGIN, COMMIT, any writing statement —
                exactly what `harness/djv_wrap.cpp` counts: every non-read-only
                step except ROLLBACK) fail with no effect.  A write may also
                fail on its own (`f db = none`, e.g. a constraint).  Every
                failure raises (sqlite_modern_cpp throws), the rest of the call
                is skipped and the stack unwinds: every live
                `util::sqlite_transaction` whose `commit()` has not completed
                issues ROLLBACK from its destructor, errors swallowed
                (src/djinterop/util/sqlite_transaction.hpp:31-65).
                `auto = true` models SQLite rolling the whole transaction back
                by itself on the failure (it does for some error classes);
                the explicit ROLLBACK then fails harmlessly.
                A failed BEGIN leaves no scope object (constructor threw): no
                ROLLBACK is issued for it.  A failed COMMIT leaves
                `committed_ = false`: the destructor rolls back.
* `atomicShape` — the monitor: decides from the kinds alone whether every
                failure leaves the committed database untouched.

`rollback` inside a command list is the ROLLBACK of a scope destroyed on a
normal path (returning without `commit()`); it never raises.
-/
namespace EngineModel.Spec.Txn

inductive CmdKind where
  | begin | commit | rollback | write | read
  deriving DecidableEq, Repr, Inhabited

def CmdKind.name : CmdKind → String
  | .begin => "begin" | .commit => "commit" | .rollback => "rollback"
  | .write => "write" | .read => "read"

def CmdKind.ofName : String → Option CmdKind
  | "begin" => some .begin | "commit" => some .commit | "rollback" => some .rollback
  | "write" => some .write | "read" => some .read
  | _ => none

/-- Statements that the fault injector counts (and may fail): everything that
is not read-only, except ROLLBACK. -/
def faultable : CmdKind → Bool
  | .begin | .commit | .write => true
  | .rollback | .read => false

/-- A statement of a call over databases of type `α`.  A write is an arbitrary
partial function: `none` = the statement fails by itself, with no effect. -/
inductive Cmd (α : Type) where
  | begin | commit | rollback
  | write (f : α → Option α)
  | read

def Cmd.kind {α : Type} : Cmd α → CmdKind
  | .begin => .begin | .commit => .commit | .rollback => .rollback
  | .write _ => .write | .read => .read

structure Conn (α : Type) where
  committed : α
  working : Option α

/-- Autocommit state on database `db` (no transaction open). -/
def Conn.idle {α : Type} (db : α) : Conn α := ⟨db, none⟩

/-- What the connection itself reads. -/
def Conn.view {α : Type} (c : Conn α) : α :=
  match c.working with
  | some w => w
  | none => c.committed

/-- What a *new* connection sees after this one is closed: SQLite discards an
open transaction when the connection is closed. -/
def Conn.reopen {α : Type} (c : Conn α) : Conn α := Conn.idle c.committed

/-- One statement on the connection (SQLite semantics).  `none` = the statement
fails and changes nothing. -/
def stepStmt {α : Type} (c : Conn α) : Cmd α → Option (Conn α)
  | .begin =>
    match c.working with
    | none => some ⟨c.committed, some c.committed⟩
    | some _ => none                       -- "cannot start a transaction within a transaction"
  | .commit =>
    match c.working with
    | some w => some ⟨w, none⟩
    | none => none                         -- "cannot commit - no transaction is active"
  | .rollback => some ⟨c.committed, none⟩  -- error without a transaction is swallowed by the destructor
  | .write f =>
    match c.working with
    | some w => (f w).map fun w' => ⟨c.committed, some w'⟩
    | none => (f c.committed).map fun d => ⟨d, none⟩       -- autocommit
  | .read => some c

/-- An entry of the statement trace of a run: kind and "the fault was injected here". -/
structure Ev where
  kind : CmdKind
  injected : Bool
  deriving DecidableEq, Repr

structure Outcome (α : Type) where
  conn : Conn α
  raised : Bool
  trace : List Ev

def Outcome.cons {α : Type} (e : Ev) (r : Outcome α) : Outcome α := { r with trace := e :: r.trace }

@[simp] theorem Outcome.cons_conn {α : Type} (e : Ev) (r : Outcome α) : (r.cons e).conn = r.conn := rfl
@[simp] theorem Outcome.cons_raised {α : Type} (e : Ev) (r : Outcome α) : (r.cons e).raised = r.raised := rfl

/-- Number of live, not yet committed `sqlite_transaction` objects after a
statement of the given kind succeeded. -/
def scopesAfter : CmdKind → Nat → Nat
  | .begin, n => n + 1
  | .commit, n => n - 1
  | .rollback, n => n - 1
  | _, n => n

/-- Stack unwinding: each live scope's destructor issues ROLLBACK. -/
def unwind {α : Type} (c : Conn α) (scopes : Nat) : Conn α :=
  if scopes = 0 then c else ⟨c.committed, none⟩

/-- A call under fault injection.  `seen` = faultable statements stepped so far,
`scopes` = live uncommitted RAII scopes. -/
def exec {α : Type} (fault : Option Nat) (auto : Bool) :
    List (Cmd α) → Nat → Nat → Conn α → Outcome α
  | [], _, _, c => ⟨c, false, []⟩
  | cmd :: rest, seen, scopes, c =>
    let inj := faultable cmd.kind && (fault == some seen)
    let seen' := if faultable cmd.kind then seen + 1 else seen
    match (if inj then none else stepStmt c cmd) with
    | some c' => (exec fault auto rest seen' (scopesAfter cmd.kind scopes) c').cons ⟨cmd.kind, false⟩
    | none =>
      ⟨unwind (if auto then ⟨c.committed, none⟩ else c) scopes, true,
        ⟨cmd.kind, inj⟩ :: List.replicate scopes ⟨.rollback, false⟩⟩

/-- A public call on a library at rest. -/
def call {α : Type} (fault : Option Nat) (auto : Bool) (cs : List (Cmd α)) (db : α) : Outcome α :=
  exec fault auto cs 0 0 (Conn.idle db)

/-! ### the monitor -/

structure ShapeSt where
  inTxn : Bool      -- a scope is open
  pending : Bool    -- the open scope has written
  effected : Bool   -- something has been made durable already
  deriving DecidableEq, Repr

def ShapeSt.init : ShapeSt := ⟨false, false, false⟩

def shapeStep (s : ShapeSt) (k : CmdKind) : Option ShapeSt :=
  if s.effected && faultable k then none     -- a statement that can fail after a durable effect
  else match k with
    | .begin => if s.inTxn then none else some ⟨true, false, s.effected⟩
    | .commit => if s.inTxn then some ⟨false, false, s.effected || s.pending⟩ else none
    | .rollback => some ⟨false, false, s.effected⟩
    | .write => if s.inTxn then some ⟨true, true, s.effected⟩ else some ⟨false, false, true⟩
    | .read => some s

def shapeRun (s : ShapeSt) : List CmdKind → Option ShapeSt
  | [] => some s
  | k :: ks =>
    match shapeStep s k with
    | some s' => shapeRun s' ks
    | none => none

/-- The statement kinds of a call form an *atomic shape*: scopes are properly
bracketed and closed at the end, and once anything has been made durable (a
write outside any scope, or the COMMIT of a scope that wrote) no statement that
can fail follows.  Typical members: `[write]`, `[read, begin, write, write,
commit]`, `[begin, commit, write]`; typical non-members: `[write, write]`,
`[begin, write, commit, write]`, `[begin, write]`. -/
def atomicShape (ks : List CmdKind) : Bool :=
  match shapeRun ShapeSt.init ks with
  | some s => !s.inTxn
  | none => false

/-- Scopes properly bracketed and none left open (weaker than `atomicShape`;
what C10 needs of every completed call). -/
def closedStep (t : Bool) : CmdKind → Option Bool
  | .begin => if t then none else some true
  | .commit => if t then some false else none
  | .rollback => some false
  | _ => some t

def closedRun (t : Bool) : List CmdKind → Option Bool
  | [] => some t
  | k :: ks =>
    match closedStep t k with
    | some t' => closedRun t' ks
    | none => none

def closedShape (ks : List CmdKind) : Bool := closedRun false ks == some false

/-- The call only reads (C16: the monitor's criterion for an observer). -/
def readOnlyShape (ks : List CmdKind) : Bool := ks.all (· == .read)

/-! ### what a successful call makes durable -/

def applyAll {α : Type} : List (α → Option α) → α → Option α
  | [], a => some a
  | f :: fs, a => (f a).bind (applyAll fs)

/-- The writes that survive: those outside any scope and those of committed
scopes, in order (`p` = writes of the currently open scope, `t` = a scope is open). -/
def effWrites {α : Type} : List (Cmd α) → List (α → Option α) → Bool → List (α → Option α)
  | [], _, _ => []
  | .write f :: r, p, true => effWrites r (p ++ [f]) true
  | .write f :: r, p, false => f :: effWrites r p false
  | .commit :: r, p, _ => p ++ effWrites r [] false
  | .rollback :: r, _, _ => effWrites r [] false
  | .begin :: r, _, _ => effWrites r [] true
  | .read :: r, p, t => effWrites r p t

def writesOf {α : Type} : List (Cmd α) → List (α → Option α)
  | [] => []
  | .write f :: r => f :: writesOf r
  | _ :: r => writesOf r

def Cmd.total {α : Type} : Cmd α → Prop
  | .write f => ∀ a, (f a).isSome = true
  | _ => True

/-! ### concrete instance used by the driver and by the completeness proof -/

/-- Every write appends its position to a log: all writes visible and distinct. -/
def logCmds : List CmdKind → Nat → List (Cmd (List Nat))
  | [], _ => []
  | .write :: ks, i => .write (fun l => some (l ++ [i])) :: logCmds ks (i + 1)
  | .begin :: ks, i => .begin :: logCmds ks (i + 1)
  | .commit :: ks, i => .commit :: logCmds ks (i + 1)
  | .rollback :: ks, i => .rollback :: logCmds ks (i + 1)
  | .read :: ks, i => .read :: logCmds ks (i + 1)

/-- Every write increments a counter. -/
def incCmds : List CmdKind → List (Cmd Nat)
  | [] => []
  | .write :: ks => .write (fun n => some (n + 1)) :: incCmds ks
  | .begin :: ks => .begin :: incCmds ks
  | .commit :: ks => .commit :: incCmds ks
  | .rollback :: ks => .rollback :: incCmds ks
  | .read :: ks => .read :: incCmds ks

def countFaultable (ks : List CmdKind) : Nat := (ks.filter faultable).length

end EngineModel.Spec.Txn
