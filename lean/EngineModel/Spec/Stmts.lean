/-
Statement programs of concrete public calls (C14, review item 3).

`Spec/Txn.lean` gives the semantics of a call as a list of statements on the
connection (`exec`: statement-level atomicity, the RAII scope, a fault at the
k-th faultable statement).  This file fixes the two forms in which the library
issues the statements of a mutating call, as `List (Cmd σ)` over the tables `σ`
of a concrete API model:

  `txn body`    = BEGIN, the reads and writes of `body`, COMMIT
                  (`util::sqlite_transaction trans{db}; …; trans.commit();`)
  `flat body`   = the reads and writes of `body` in autocommit mode

and the *skeleton* of a statement-kind sequence: reads dropped, consecutive
writes inside one scope collapsed to one.  The skeleton is what the tie
compares between an operation of a model and the statements the real call is
observed to step: it is invariant under merging, splitting or re-ordering the
statements inside a scope and under added reads, keeps the number of autocommit
writes, and decides `atomicShape` (`Proofs/Stmts.lean: atomicShape_skeleton`).
-/
import EngineModel.Spec.Txn

namespace EngineModel.Spec.Stmts
open EngineModel.Spec.Txn

/-- a writing statement that cannot fail by itself -/
def tot {σ : Type} (f : σ → σ) : Cmd σ := .write fun d => some (f d)

def txn {σ : Type} (body : List (Cmd σ)) : List (Cmd σ) := .begin :: body ++ [.commit]

/-- reads and writes only (what may stand between BEGIN and COMMIT, or in autocommit mode) -/
def Cmd.rw {σ : Type} (c : Cmd σ) : Bool := c.kind == .read || c.kind == .write

def hasWrite {σ : Type} (body : List (Cmd σ)) : Bool := body.any (·.kind == .write)

/-- `skel t w`: `t` = inside a scope, `w` = the last kept statement is a write of this scope. -/
def skel : Bool → Bool → List CmdKind → List CmdKind
  | _, _, [] => []
  | t, w, .read :: ks => skel t w ks
  | t, w, .write :: ks => if t && w then skel t w ks else .write :: skel t t ks
  | _, _, .begin :: ks => .begin :: skel true false ks
  | _, _, .commit :: ks => .commit :: skel false false ks
  | _, _, .rollback :: ks => .rollback :: skel false false ks

def skeleton (ks : List CmdKind) : List CmdKind := skel false false ks

def showKinds (ks : List CmdKind) : String :=
  if ks.isEmpty then "-" else ",".intercalate (ks.map CmdKind.name)

/-- The skeletons a public mutating call of the library can have. -/
inductive Skeleton where
  | none      -- no writing statement (e.g. adding a track that is already a member)
  | single    -- one writing statement, autocommit
  | scope     -- BEGIN, one or more writing statements, COMMIT
  deriving DecidableEq, Repr, Inhabited

def Skeleton.kinds : Skeleton → List CmdKind
  | .none => []
  | .single => [.write]
  | .scope => [.begin, .write, .commit]

def Skeleton.name : Skeleton → String
  | .none => "-" | .single => "write" | .scope => "begin,write,commit"

end EngineModel.Spec.Stmts
