/-
"The schema-2.x crate model has no schema parameter" as a checkable statement.

From a catalog dump (sqlite_master entries that belong to or mention Playlist / PlaylistEntity; DDL text already
canonical — whitespace, comments and identifier quoting forgotten by Spec/SqlCanon.canon — and packed into a
number) keep what the model of Db/Chain.lean + Db/V2Crates.lean depends on: the two tables, every trigger and every
view of the dump (whatever table they are attached to), and every UNIQUE index on the two tables (the `unique` flag
of PRAGMA index_list: the automatic indexes of UNIQUE / PRIMARY KEY constraints and explicit unique indexes) — the
indexes that can reject a row.  Plain indexes and other tables have no influence on the result of any statement the
library issues (foreign keys are not enforced).
-/
namespace EngineModel.Spec.V2Ddl

/-- (type, name, tbl_name, unique, canonical DDL as a number) -/
abbrev Obj := String × String × String × Bool × Nat

def onCrateTable (t : String) : Bool := t == "Playlist" || t == "PlaylistEntity"

def relevant (o : Obj) : Bool :=
  (o.1 == "table" && onCrateTable o.2.1) ||
  o.1 == "trigger" || o.1 == "view" ||
  (o.1 == "index" && onCrateTable o.2.2.1 && o.2.2.2.1)

/-- What the model depends on. -/
def core (objs : List Obj) : List Obj := objs.filter relevant

/-- Every dump has the same model-relevant part as the first one. -/
def allSame (cat : List (String × List Obj)) : Bool :=
  match cat with
  | [] => false
  | (_, ref) :: rest => rest.all fun p => core p.2 == core ref

end EngineModel.Spec.V2Ddl
