/-
Spec for C17: the *structural catalog* of one SQLite database file as `verify()` can
see it — tables with their columns (`PRAGMA table_info`: name, declared type, notnull,
default, pk rank) and indices (`PRAGMA index_list`: name, unique, origin, partial;
`PRAGMA index_info`: rank, column), and views by name — together with the
single-element mutations the property quantifies over, as functions on catalogs.

Strings are `List Char` (one `Char` per byte of the stored name), so that the order
used by the validator (`std::string::operator<`, bytewise) is `ltStr`.
-/
import EngineModel.Spec.SchemaDump

namespace EngineModel.Spec.Catalog
open EngineModel.Spec.SchemaDump (Str Dump)

/-- One `PRAGMA table_info` row as the validator reads it (`NULL` default = `""`,
which is what the binding layer hands to a `std::string`). -/
structure Col where
  name : Str
  type : Str
  notnull : Int
  dflt : Str
  pk : Int
  deriving DecidableEq, Repr, Inhabited

/-- One `PRAGMA index_info` row (`NULL` column name — rowid / expression — = `""`). -/
structure IdxCol where
  seqno : Int
  name : Str
  deriving DecidableEq, Repr, Inhabited

/-- One `PRAGMA index_list` row. -/
structure IdxE where
  name : Str
  unique : Int
  origin : Str
  partialIdx : Int
  deriving DecidableEq, Repr, Inhabited

structure Idx where
  entry : IdxE
  cols : List IdxCol
  deriving DecidableEq, Repr, Inhabited

structure Table where
  name : Str
  cols : List Col
  idxs : List Idx
  deriving DecidableEq, Repr, Inhabited

/-- The catalog of one database file (`main` of a 2.x library; `music` / `perfdata` of a 1.x one). -/
structure Db where
  tables : List Table
  views : List Str
  deriving DecidableEq, Repr, Inhabited

/-! ### what the validator's queries return -/

def tableNames (db : Db) : List Str := db.tables.map (·.name)

def findTable (db : Db) (t : Str) : Option Table := db.tables.find? (·.name == t)

/-- `PRAGMA table_info('t')`: no rows for a table that does not exist. -/
def tableInfo (db : Db) (t : Str) : List Col :=
  match findTable db t with
  | some tb => tb.cols
  | none => []

/-- `PRAGMA index_list('t')`. -/
def indexList (db : Db) (t : Str) : List IdxE :=
  match findTable db t with
  | some tb => tb.idxs.map (·.entry)
  | none => []

def allIdxs (db : Db) : List Idx := db.tables.flatMap (·.idxs)

/-- `PRAGMA index_info('i')`: index names are unique within a database file. -/
def indexInfo (db : Db) (i : Str) : List IdxCol :=
  match (allIdxs db).find? (·.entry.name == i) with
  | some ix => ix.cols
  | none => []

/-- Tables SQLite itself owns (`sqlite_sequence`, `sqlite_stat1`): their shape cannot be
changed by DDL and `verify()` only checks their presence. -/
def isInternal (t : Str) : Bool := "sqlite_".toList.isPrefixOf t

def userTables (db : Db) : List Table := db.tables.filter fun t => !isInternal t.name

/-! ### from a catalog dump (Spec/SchemaDump.lean) -/

def ofDump (d : Dump) (label : Str) : Db :=
  let tnames := (d.master.filter fun r => r.db == label && r.type == "table".toList).map (·.name)
  let views := (d.master.filter fun r => r.db == label && r.type == "view".toList).map (·.name)
  let colsOf (t : Str) : List Col :=
    match d.tables.find? (fun x => x.db == label && x.tbl == t) with
    | some x => x.cols.map fun c => ⟨c.name, c.type, c.notnull, c.dflt.getD [], c.pk⟩
    | none => []
  let idxOf (t : Str) : List Idx :=
    match d.indexes.find? (fun x => x.db == label && x.tbl == t) with
    | some x => x.idx.map fun i =>
        ⟨⟨i.name, i.unique, i.origin, i.partialIdx⟩, i.cols.map fun c => ⟨c.seqno, c.name.getD []⟩⟩
    | none => []
  ⟨tnames.map fun t => ⟨t, colsOf t, idxOf t⟩, views⟩

/-! ### well-formedness SQLite guarantees -/

def nodupB {α} [DecidableEq α] : List α → Bool
  | [] => true
  | a :: as => !as.contains a && nodupB as

/-- Distinct table names, view names, column names per table, index names per file,
ranks per index. -/
def wf (db : Db) : Bool :=
  nodupB (tableNames db) && nodupB db.views &&
  db.tables.all (fun t => nodupB (t.cols.map (·.name))) &&
  nodupB ((allIdxs db).map (·.entry.name)) &&
  (allIdxs db).all (fun i => nodupB (i.cols.map (·.seqno)))

/-! ### the single-element mutations of the property -/

/-- Replace the first element satisfying `p` by its image under `f`. -/
def modFirst {α} (p : α → Bool) (f : α → α) : List α → List α
  | [] => []
  | a :: as => if p a then f a :: as else a :: modFirst p f as

def eraseFirst {α} (p : α → Bool) : List α → List α
  | [] => []
  | a :: as => if p a then as else a :: eraseFirst p as

def modTable (t : Str) (f : Table → Table) (db : Db) : Db :=
  { db with tables := modFirst (·.name == t) f db.tables }

inductive Mutation where
  /-- a table goes missing (with its indices) -/
  | dropTable (t : Str)
  /-- an extra table -/
  | addTable (t : Table)
  /-- a table is renamed (its columns and indices move with it) -/
  | renameTable (t new : Str)
  | dropView (v : Str)
  | addView (v : Str)
  | renameView (v new : Str)
  /-- a column goes missing -/
  | dropCol (t c : Str)
  /-- an extra column -/
  | addCol (t : Str) (c : Col)
  /-- a column is replaced by `new`: renamed (`new.name` fresh), or with the same name and
  another type / nullability / default / key membership -/
  | updCol (t c : Str) (new : Col)
  | dropIdx (t i : Str)
  | addIdx (t : Str) (i : Idx)
  /-- an index is replaced by `new`: renamed, or with the same name and another
  uniqueness / origin / partiality / column list -/
  | updIdx (t i : Str) (new : Idx)
  deriving Repr

def apply : Mutation → Db → Db
  | .dropTable t, db => { db with tables := eraseFirst (·.name == t) db.tables }
  | .addTable t, db => { db with tables := t :: db.tables }
  | .renameTable t new, db => modTable t (fun tb => { tb with name := new }) db
  | .dropView v, db => { db with views := eraseFirst (· == v) db.views }
  | .addView v, db => { db with views := v :: db.views }
  | .renameView v new, db => { db with views := modFirst (· == v) (fun _ => new) db.views }
  | .dropCol t c, db => modTable t (fun tb => { tb with cols := eraseFirst (·.name == c) tb.cols }) db
  | .addCol t c, db => modTable t (fun tb => { tb with cols := tb.cols ++ [c] }) db
  | .updCol t c new, db => modTable t (fun tb => { tb with cols := modFirst (·.name == c) (fun _ => new) tb.cols }) db
  | .dropIdx t i, db => modTable t (fun tb => { tb with idxs := eraseFirst (·.entry.name == i) tb.idxs }) db
  | .addIdx t i, db => modTable t (fun tb => { tb with idxs := tb.idxs ++ [i] }) db
  | .updIdx t i new, db => modTable t (fun tb => { tb with idxs := modFirst (·.entry.name == i) (fun _ => new) tb.idxs }) db

/-- Same members (both directions). -/
def sameMembers {α} [DecidableEq α] (xs ys : List α) : Bool :=
  xs.all (fun x => ys.contains x) && ys.all (fun y => xs.contains y)

def hasUserTable (db : Db) (t : Str) : Bool := (userTables db).any (·.name == t)

def colNames (db : Db) (t : Str) : List Str := (tableInfo db t).map (·.name)
def idxNames (db : Db) : List Str := (allIdxs db).map (·.entry.name)

/-- The mutation names an existing element and really changes it (a new name is new,
a replaced column / index differs from the one it replaces), and the result is again a
catalog SQLite could hold. -/
def applicable : Mutation → Db → Bool
  | .dropTable t, db => hasUserTable db t
  | .addTable t, db =>
      !(tableNames db).contains t.name && !isInternal t.name && nodupB (t.cols.map (·.name)) &&
      nodupB (t.idxs.map (·.entry.name)) && t.idxs.all (fun i => !(idxNames db).contains i.entry.name) &&
      t.idxs.all (fun i => nodupB (i.cols.map (·.seqno)))
  | .renameTable t new, db => hasUserTable db t && !(tableNames db).contains new && !isInternal new
  | .dropView v, db => db.views.contains v
  | .addView v, db => !db.views.contains v
  | .renameView v new, db => db.views.contains v && !db.views.contains new
  | .dropCol t c, db => hasUserTable db t && (colNames db t).contains c
  | .addCol t c, db => hasUserTable db t && !(colNames db t).contains c.name
  | .updCol t c new, db =>
      hasUserTable db t &&
      (match (tableInfo db t).find? (·.name == c) with
       | some old => new != old && (new.name == c || !(colNames db t).contains new.name)
       | none => false)
  | .dropIdx t i, db => hasUserTable db t && ((indexList db t).map (·.name)).contains i
  | .addIdx t i, db => hasUserTable db t && !(idxNames db).contains i.entry.name && nodupB (i.cols.map (·.seqno))
  | .updIdx t i new, db =>
      hasUserTable db t && nodupB (new.cols.map (·.seqno)) &&
      (match (findTable db t).bind (fun tb => tb.idxs.find? (·.entry.name == i)) with
       | some old =>
           (new.entry != old.entry || !sameMembers new.cols old.cols) &&
           (new.entry.name == i || !(idxNames db).contains new.entry.name)
       | none => false)

end EngineModel.Spec.Catalog
