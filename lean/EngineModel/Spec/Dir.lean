/-
The library directory as the static entry points see it (C10 iii, C16):

  src/djinterop/engine/engine_library_dir_utils.cpp   detect_is_database2, load_legacy_sqlite_database,
                                                      load_database2_sqlite_database, create_*_sqlite_database,
                                                      legacy_database_exists, database2_database_exists
  src/djinterop/engine/engine.cpp                     create_database, load_database, database_exists,
                                                      create_or_load_database
  src/djinterop/engine/base_engine_library.cpp        engine::v2::engine_library::load / exists
  src/djinterop/engine/v1/engine_storage.cpp          load_existing (detect_schema on the attached m.db)

A directory is: does it exist, the state of `m.db`, `p.db`, `Database2/`,
`Database2/m.db` (absent / a valid database written by a creator / zero bytes /
bytes that are not an SQLite database) and the version stamp a valid `m.db`
carries.  Every function below returns the directory *afterwards* together
with its answer, and is written from file-system primitives that really
create files (`openCreate`: SQLite opens read-write-create, so `ATTACH` or
`sqlite::database{path}` on a missing file creates an empty one) — so "loading
does not modify the directory" is a theorem about the guards in the code, not
a consequence of the functions' types.  The code before the two repairs
(`6269a0f`: p.db attached without an existence check; `1fcc407`:
create_or_load created whenever the loader said "not found") and the seeded
change C16-2 are kept as `…Unguarded` / `…Old` variants for the
counterexample theorems.
-/
import EngineModel.Basic.Res
import EngineModel.Pure.Detect
import EngineModel.Gen.DetectGen

namespace EngineModel.Spec.Dir
open EngineModel.Pure.Detect

inductive FileSt where
  | absent | valid | zero | garbage
  deriving DecidableEq, Repr, Inhabited

/-- `path_exists` of the file -/
def FileSt.present : FileSt → Bool
  | .absent => false
  | _ => true

def FileSt.letter : FileSt → String
  | .absent => "a" | .valid => "v" | .zero => "z" | .garbage => "g"

def FileSt.ofLetter : Char → Option FileSt
  | 'a' => some .absent | 'v' => some .valid | 'z' => some .zero | 'g' => some .garbage
  | _ => none

/-- What a valid `m.db` says about itself: `Information.schemaVersion{Major,Minor,Patch}` and the variant marker
(`isExternalTrack` declared NUMERIC). -/
structure Stamp where
  maj : Int
  min : Int
  pat : Int
  numeric : Bool
  deriving DecidableEq, Repr, Inhabited

structure Dir where
  dir : Bool          -- the directory exists
  m : FileSt          -- <dir>/m.db
  p : FileSt          -- <dir>/p.db
  d2 : Bool           -- <dir>/Database2/ exists
  dm : FileSt         -- <dir>/Database2/m.db
  stL : Stamp         -- stamp of m.db (meaningful when `m = valid`)
  stD : Stamp         -- stamp of Database2/m.db
  deriving DecidableEq, Repr, Inhabited

/-- A file needs its directory. -/
def Dir.wf (d : Dir) : Bool :=
  (d.dir || (!d.m.present && !d.p.present && !d.d2)) && (d.d2 || !d.dm.present)

def noDir : Dir := ⟨false, .absent, .absent, false, .absent, ⟨0, 0, 0, false⟩, ⟨0, 0, 0, false⟩⟩
def emptyDir : Dir := { noDir with dir := true }

def notFound : Exn := .dj "database_not_found"
def inconsistency : Exn := .dj "database_inconsistency"
def unsupported : Exn := .dj "unsupported_database"

/-! ### file-system primitives -/

/-- SQLite opening a database file read-write-create (`sqlite::database{path}`, `ATTACH ? AS …`): a file that does
not exist is **created** (empty) when its directory exists.  Second component: the connection can use the file. -/
def openCreate (parent : Bool) : FileSt → FileSt × Bool
  | .absent => if parent then (.zero, true) else (.absent, false)       -- created | SQLITE_CANTOPEN
  | .garbage => (.garbage, false)                                         -- "file is not a database"
  | f => (f, true)

/-- A schema creator (`CREATE TABLE …`, the Information row) on an opened file: an empty database becomes a valid
one; on a database that already has the tables the first CREATE TABLE fails and nothing is written. -/
def createIn : FileSt → FileSt × Bool
  | .zero => (.valid, true)
  | f => (f, false)

/-- `schema::detect_schema` on an opened database file. -/
def detectFile (f : FileSt) (st : Stamp) : Res Schema :=
  match f with
  | .valid =>
    match Gen.Detect.detectGen st.maj st.min st.pat st.numeric with
    | .schema s => .ok s
    | .unsupported => .throw unsupported
  | _ => .throw inconsistency          -- no `Information` table

/-! ### engine_library_dir_utils.cpp -/

/-- `path_exists(<dir>/m.db)` -/
def legacyExists (d : Dir) : Bool := d.dir && d.m.present
/-- `path_exists(<dir>/Database2/m.db)` -/
def db2Exists (d : Dir) : Bool := d.dir && d.d2 && d.dm.present

def detectIsDb2 (d : Dir) : Res Bool :=
  if !d.dir then .throw notFound
  else if !legacyExists d && !db2Exists d then .throw notFound
  else if legacyExists d && db2Exists d then .throw notFound      -- "which is not supposed to happen"
  else .ok (db2Exists d)

/-- `load_legacy_sqlite_database` (since 6269a0f: both files are checked before anything is attached). -/
def loadLegacySqlite (d : Dir) : Dir × Res Unit :=
  if !d.dir then (d, .throw notFound)
  else if !d.m.present then (d, .throw notFound)
  else if !d.p.present then (d, .throw inconsistency)
  else
    let (m1, ok1) := openCreate d.dir d.m
    let d1 := { d with m := m1 }
    if !ok1 then (d1, .throw .sqlite_error) else
    let (p1, ok2) := openCreate d1.dir d1.p
    let d2 := { d1 with p := p1 }
    if !ok2 then (d2, .throw .sqlite_error) else (d2, .ok ())

/-- The same function before 6269a0f: `ATTACH` of both paths without looking. -/
def loadLegacySqliteUnguarded (d : Dir) : Dir × Res Unit :=
  if !d.dir then (d, .throw notFound)
  else
    let (m1, ok1) := openCreate d.dir d.m
    let d1 := { d with m := m1 }
    if !ok1 then (d1, .throw .sqlite_error) else
    let (p1, ok2) := openCreate d1.dir d1.p
    let d2 := { d1 with p := p1 }
    if !ok2 then (d2, .throw .sqlite_error) else (d2, .ok ())

/-- `load_database2_sqlite_database`: `path_exists` first, then open. -/
def loadDb2Sqlite (d : Dir) : Dir × Res Unit :=
  if !db2Exists d then (d, .throw notFound)
  else
    let (f, ok) := openCreate (d.dir && d.d2) d.dm
    ({ d with dm := f }, if ok then .ok () else .throw .sqlite_error)

/-- The seeded change C16-2: "just open it and turn sqlite_exception into database_not_found". -/
def loadDb2SqliteUnguarded (d : Dir) : Dir × Res Unit :=
  let (f, ok) := openCreate (d.dir && d.d2) d.dm
  ({ d with dm := f }, if ok then .ok () else .throw notFound)

/-! ### loading -/

/-- `v1::engine_storage{directory}`: attach, then `detect_schema(db, "music")`. -/
def loadLegacyWith (attach : Dir → Dir × Res Unit) (d : Dir) : Dir × Res Schema :=
  let r := attach d
  (r.1, r.2.bind fun _ => detectFile r.1.m r.1.stL)

/-- `engine::v2::engine_library::load` (`base_engine_library::load`): open, detect. -/
def v2LoadWith (open2 : Dir → Dir × Res Unit) (d : Dir) : Dir × Res Schema :=
  let r := open2 d
  (r.1, r.2.bind fun _ => detectFile r.1.dm r.1.stD)

def v2Load : Dir → Dir × Res Schema := v2LoadWith loadDb2Sqlite

/-- `engine::v2::engine_library::exists` -/
def v2Exists (d : Dir) : Dir × Res Bool := (d, .ok (db2Exists d))

/-- `load_database` on a Database2 layout: "Found a Database2-type Engine Library with schema …, which is not
supported" below 2.18.0. -/
def requireDb2Schema : Res Schema → Res Schema
  | .ok s => if Schema.schema_2_18_0.ord ≤ s.ord then .ok s else .throw inconsistency
  | r => r

/-- `load_database(directory, loaded_schema)`. -/
def loadDatabaseWith (attach open2 : Dir → Dir × Res Unit) (d : Dir) : Dir × Res Schema :=
  match detectIsDb2 d with
  | .throw e => (d, .throw e)
  | .ub u => (d, .ub u)
  | .ok false => loadLegacyWith attach d
  | .ok true =>
    let r := v2LoadWith open2 d
    (r.1, requireDb2Schema r.2)

def loadDatabase : Dir → Dir × Res Schema := loadDatabaseWith loadLegacySqlite loadDb2Sqlite

/-- `database_exists`: a trial load; only `database_not_found` means "no". -/
def existsAnswer : Res Schema → Res Bool
  | .ok _ => .ok true
  | .throw e => if e = notFound then .ok false else .throw e
  | .ub u => .ub u

def databaseExistsWith (load : Dir → Dir × Res Schema) (d : Dir) : Dir × Res Bool :=
  let r := load d
  (r.1, existsAnswer r.2)

def databaseExists : Dir → Dir × Res Bool := databaseExistsWith loadDatabase

/-! ### creating -/

/-- The layout `create_database` chooses: `schema >= engine_schema::schema_2_18_0` → Database2.
(Checked against the real creators on every run for all versions: tie `C10`, stream "layout".) -/
def createsDb2 (s : Schema) : Bool := Schema.schema_2_18_0.ord ≤ s.ord

def stampOf (s : Schema) : Stamp :=
  let v := Gen.Detect.stampGen s
  ⟨v.1, v.2.1, v.2.2, s.marker == some true⟩

/-- `v1::engine_storage::create`: make the directory, ATTACH both files (creating what is missing), run the
creator: the music tables first, then the performance tables. -/
def createLegacy (d : Dir) (s : Schema) : Dir × Res Schema :=
  let d0 := { d with dir := true }
  let (m1, ok) := openCreate true d0.m
  let d1 := { d0 with m := m1 }
  if !ok then (d1, .throw .sqlite_error) else
  let (p1, ok) := openCreate true d1.p
  let d2 := { d1 with p := p1 }
  if !ok then (d2, .throw .sqlite_error) else
  let (m2, ok) := createIn d2.m
  let d3 := { d2 with m := m2, stL := if ok then stampOf s else d2.stL }
  if !ok then (d3, .throw .sqlite_error) else
  let (p2, ok) := createIn d3.p
  let d4 := { d3 with p := p2 }
  if !ok then (d4, .throw .sqlite_error) else (d4, .ok s)

/-- `v2::engine_library::create`: make the directories, refuse an existing Database2/m.db, open, run the creator. -/
def createDb2 (d : Dir) (s : Schema) : Dir × Res Schema :=
  let d0 := { d with dir := true, d2 := true }
  if d0.dm.present then (d0, .throw inconsistency)
  else
    let (f1, ok) := openCreate true d0.dm
    let d1 := { d0 with dm := f1 }
    if !ok then (d1, .throw .sqlite_error) else
    let (f2, ok) := createIn d1.dm
    let d2 := { d1 with dm := f2, stD := if ok then stampOf s else d1.stD }
    if !ok then (d2, .throw .sqlite_error) else (d2, .ok s)

def createDatabase (d : Dir) (s : Schema) : Dir × Res Schema :=
  if createsDb2 s then createDb2 d s else createLegacy d s

structure ColResult where
  dir : Dir
  created : Bool            -- the `created` out-parameter as the code sets it
  res : Res Schema          -- the schema of the database returned, or the exception
  deriving DecidableEq, Repr

/-- `create_or_load_database` (since 1fcc407: creates only when neither m.db nor Database2/m.db exists). -/
def createOrLoadAtWith (load : Dir → Dir × Res Schema) (d : Dir) (req : Schema) : ColResult :=
  let l := load d
  if l.2 = .throw notFound then
    if legacyExists l.1 || db2Exists l.1 then ⟨l.1, false, .throw notFound⟩
    else
      let r := createDatabase l.1 req
      ⟨r.1, true, r.2⟩
  else ⟨l.1, false, l.2⟩

def createOrLoadAt : Dir → Schema → ColResult := createOrLoadAtWith loadDatabase

/-- The same function before 1fcc407: whenever the loader says "not found", create. -/
def createOrLoadAtOld (d : Dir) (req : Schema) : ColResult :=
  let l := loadDatabase d
  if l.2 = .throw notFound then
    let r := createDatabase l.1 req
    ⟨r.1, true, r.2⟩
  else ⟨l.1, false, l.2⟩

/-! ### text form for the driver -/

def Dir.shape (d : Dir) : String :=
  if !d.dir then "N0"
  else d.m.letter ++ d.p.letter ++ (if !d.d2 then "a" else if !d.dm.present then "e" else d.dm.letter)

/-- `N0` or three letters (m.db, p.db, Database2/: a|e|v|z|g); valid files carry the stamps of `s1` / `s2`. -/
def Dir.ofShape (sh : String) (s1 s2 : Schema) : Option Dir :=
  if sh = "N0" then some { noDir with stL := stampOf s1, stD := stampOf s2 } else
  match sh.toList with
  | [a, b, c] => do
    let m ← FileSt.ofLetter a
    let p ← FileSt.ofLetter b
    let (d2, dm) ← (if c = 'a' then some (false, FileSt.absent) else if c = 'e' then some (true, FileSt.absent)
      else (FileSt.ofLetter c).map fun f => (true, f))
    some ⟨true, m, p, d2, dm, stampOf s1, stampOf s2⟩
  | _ => none

def showRes {α} (f : α → String) : Res α → String
  | .ok a => f a
  | .throw e => "throw:" ++ e.toString
  | .ub u => "ub:" ++ u.toString

end EngineModel.Spec.Dir
