/-
Static SQL-site skeletons (C14 / C16, the static route).

`tools/tr_sqlsites.py` extracts from clang's typed AST, for every public entry
point of the engine implementation, a *skeleton* `Sk`: a regular expression over
statement events with RAII scopes.  This file gives the skeletons their meaning
(`Run`: which event traces a call with that skeleton can produce, exceptions and
early returns included), the translation of an event trace to the statement
kinds of `Spec/Txn.lean` (`conc`: the destructor of a `util::sqlite_transaction`
issues ROLLBACK exactly when `commit()` has not completed), and two decidable
analyses:

* `staticAtomic sk` — abstract interpretation of the monitor automaton of
  `Txn.atomicShape` over the skeleton (sets of monitor states, loops by
  fixpoint iteration): every trace of the skeleton is an atomic shape
  (`Proofs/SqlSites.lean`: `staticAtomic_sound`);
* `Sk.noWrite sk` / `Sk.readOnly sk` — no writing statement site is reachable /
  only reading statement sites are.

Mathlib-free, plain data and structural recursion only.
-/
import EngineModel.Spec.Txn

namespace EngineModel.Spec.SqlSites
open EngineModel.Spec.Txn

/-- A statement event of a call.  `scopeOpen` / `scopeClose` are the constructor
and the destructor of a `util::sqlite_transaction` local (they are produced only
through `Sk.scope`); `commit` is its `.commit()`. -/
inductive Ev where
  | read | write | commit | scopeOpen | scopeClose
  deriving DecidableEq, Repr, Inhabited

def Ev.isRead : Ev → Bool
  | .read => true
  | _ => false

/-- Skeleton of a function body.  `star` = "many" (a loop, a callback per row, a
recursion, anything whose control flow is flattened), `scope a` = the rest of a
block after a `util::sqlite_transaction` local was constructed, `ret a` = a
callee that may return early. -/
inductive Sk where
  | eps
  | ev (e : Ev)
  | seq (a b : Sk)
  | alt (a b : Sk)
  | star (a : Sk)
  | scope (a : Sk)
  | ret (a : Sk)
  deriving Repr, Inhabited

def Sk.seqs : List Sk → Sk
  | [] => .eps
  | [a] => a
  | a :: r => .seq a (Sk.seqs r)

def Sk.alts : List Sk → Sk
  | [] => .eps
  | [a] => a
  | a :: r => .alt a (Sk.alts r)

abbrev Sk.r : Sk := .ev .read
abbrev Sk.w : Sk := .ev .write
abbrev Sk.c : Sk := .ev .commit

/-- `Run sk evs aborted`: the events a piece of code with skeleton `sk` can
produce.  `aborted = true`: control left the piece abruptly (an exception — any
statement may raise — or a `return`); the events after that point are skipped,
but every enclosing RAII scope still runs its destructor (`scope`), and an
enclosing `ret` (a call boundary) turns the early `return` of the callee into
a normal completion of the call. -/
inductive Run : Sk → List Ev → Bool → Prop
  | abort (a : Sk) : Run a [] true
  | eps : Run .eps [] false
  | ev (e : Ev) : Run (.ev e) [e] false
  | seqN {a b : Sk} {xs ys : List Ev} {f : Bool} : Run a xs false → Run b ys f → Run (.seq a b) (xs ++ ys) f
  | seqA {a b : Sk} {xs : List Ev} : Run a xs true → Run (.seq a b) xs true
  | altL {a b : Sk} {xs : List Ev} {f : Bool} : Run a xs f → Run (.alt a b) xs f
  | altR {a b : Sk} {xs : List Ev} {f : Bool} : Run b xs f → Run (.alt a b) xs f
  | starNil {a : Sk} : Run (.star a) [] false
  | starN {a : Sk} {xs ys : List Ev} {f : Bool} : Run a xs false → Run (.star a) ys f → Run (.star a) (xs ++ ys) f
  | starA {a : Sk} {xs : List Ev} : Run a xs true → Run (.star a) xs true
  | scope {a : Sk} {xs : List Ev} {f : Bool} : Run a xs f → Run (.scope a) (.scopeOpen :: xs ++ [.scopeClose]) f
  | ret {a : Sk} {xs : List Ev} {f : Bool} : Run a xs f → Run (.ret a) xs false
  | retA {a : Sk} {xs : List Ev} : Run a xs true → Run (.ret a) xs true

/-- Event trace → statement kinds of `Spec/Txn.lean`.  `n` = live
`sqlite_transaction` objects whose `commit()` has not completed (`Txn.exec`'s
`scopes`): the destructor issues ROLLBACK iff there is one
(sqlite_transaction.hpp:36-58). -/
def conc : Nat → List Ev → List CmdKind
  | _, [] => []
  | n, .read :: r => .read :: conc n r
  | n, .write :: r => .write :: conc n r
  | n, .commit :: r => .commit :: conc (n - 1) r
  | n, .scopeOpen :: r => .begin :: conc (n + 1) r
  | n, .scopeClose :: r => if n = 0 then conc 0 r else .rollback :: conc (n - 1) r

/-! ### the monitor automaton on events -/

def evStep (s : ShapeSt) : Ev → Option ShapeSt
  | .read => shapeStep s .read
  | .write => shapeStep s .write
  | .commit => shapeStep s .commit
  | .scopeOpen => shapeStep s .begin
  | .scopeClose => if s.inTxn then shapeStep s .rollback else some s

def evRun (s : ShapeSt) : List Ev → Option ShapeSt
  | [] => some s
  | e :: r =>
    match evStep s e with
    | some s' => evRun s' r
    | none => none

/-! ### abstract interpretation: sets of monitor states -/

abbrev SS := List ShapeSt

def union (a b : SS) : SS := a ++ b.filter (fun s => !a.contains s)

def subset (a b : SS) : Bool := a.all (fun s => b.contains s)

def stepAll (e : Ev) : SS → Option SS
  | [] => some []
  | s :: r =>
    match evStep s e, stepAll e r with
    | some s', some r' => some (union [s'] r')
    | _, _ => none

/-- Loop invariant by iteration: grow `I` until the body maps it into itself.
Running out of fuel rejects (the monitor has 8 states; 10 rounds suffice). -/
def starIter (f : SS → Option (SS × SS)) : Nat → SS → Option (SS × SS)
  | 0, _ => none
  | fuel + 1, I =>
    match f I with
    | none => none
    | some (N, A) => if subset N I then some (I, union I A) else starIter f fuel (union I N)

/-- `post sk S = some (N, A)`: from any monitor state of `S`, every normally
completed run of `sk` ends in `N`, every aborted run in `A`, and no run makes
the monitor fail.  `none`: some run may make the monitor fail. -/
def post : Sk → SS → Option (SS × SS)
  | .eps, S => some (S, S)
  | .ev e, S =>
    match stepAll e S with
    | some N => some (N, S)
    | none => none
  | .seq a b, S =>
    match post a S with
    | none => none
    | some (N1, A1) =>
      match post b N1 with
      | none => none
      | some (N2, A2) => some (N2, union A1 A2)
  | .alt a b, S =>
    match post a S, post b S with
    | some (N1, A1), some (N2, A2) => some (union N1 N2, union A1 A2)
    | _, _ => none
  | .star a, S => starIter (post a) 10 S
  | .scope a, S =>
    match stepAll .scopeOpen S with
    | none => none
    | some S1 =>
      match post a S1 with
      | none => none
      | some (N, A) =>
        match stepAll .scopeClose N, stepAll .scopeClose A with
        | some N', some A' => some (N', union S A')
        | _, _ => none
  | .ret a, S =>
    match post a S with
    | none => none
    | some (N, A) => some (union N A, A)

def closedAll (S : SS) : Bool := S.all (fun s => !s.inTxn)

/-- The static C14 predicate: whatever path the call takes (branches, loop
counts, exceptions, early returns) its statements form an atomic shape — scopes
bracketed and closed, no statement that can fail after something has been made
durable (so: at most one write outside any scope, several writes only inside one
open … commit, no write after a commit that made something durable, no nested
scope). -/
def staticAtomic (sk : Sk) : Bool :=
  match post sk [ShapeSt.init] with
  | some (N, A) => closedAll N && closedAll A
  | none => false

/-- No writing statement site is reachable. -/
def Sk.noWrite : Sk → Bool
  | .eps => true
  | .ev e => e != .write
  | .seq a b => a.noWrite && b.noWrite
  | .alt a b => a.noWrite && b.noWrite
  | .star a => a.noWrite
  | .scope a => a.noWrite
  | .ret a => a.noWrite

/-- Only reading statement sites are reachable (no scope either). -/
def Sk.readOnly : Sk → Bool
  | .eps => true
  | .ev e => e.isRead
  | .seq a b => a.readOnly && b.readOnly
  | .alt a b => a.readOnly && b.readOnly
  | .star a => a.readOnly
  | .scope _ => false
  | .ret a => a.readOnly

/-- A generated entry: qualified name of the entry point and its skeleton. -/
abbrev Entry := String × Sk

end EngineModel.Spec.SqlSites
