/-
Spec for C12: comparison of stored DDL "modulo whitespace and identifier quoting".

`lex : List Char → List Lexeme` is a *lossless* SQL lexer (`unlex (lex s) = s`,
proved in Proofs/SqlCanon.lean): whitespace runs, `--` and `/* */` comments,
bare words, the three identifier quoting styles `[x]`, `"x"`, `` `x` ``, string
literals `'x'`, one- and two-character operators, and an explicit `junk` lexeme
for an unterminated quoted token.  `canon` forgets exactly the whitespace and
comment lexemes and the quoting style of an identifier — nothing else (case,
string literals, operators, numbers are kept as written).

Everything is structural recursion over `List Char` (fuel = length of the
input), so the kernel can evaluate it (`decide +kernel`) and the compiled driver
runs the very same definitions.
-/
namespace EngineModel.Spec.SqlCanon

/-! ### character classes (as SQLite's tokenizer: `sqlite3CtypeMap`) -/

def isWs (c : Char) : Bool :=
  c == ' ' || c == '\t' || c == '\n' || c == '\r' || c == '\x0b' || c == '\x0c'

def isWordChar (c : Char) : Bool :=
  c.isAlphanum || c == '_' || c == '$' || c.toNat ≥ 128

def isQuoteStart (c : Char) : Bool :=
  c == '[' || c == '"' || c == '`' || c == '\''

/-- Neither whitespace, nor word character, nor an opening quote: punctuation. -/
def isSymChar (c : Char) : Bool := !isWs c && !isWordChar c && !isQuoteStart c

/-- Two-character operators of SQLite. -/
def twoOp (c d : Char) : Bool :=
  (c == '|' && d == '|') || (c == '<' && (d == '=' || d == '>' || d == '<')) ||
  (c == '>' && (d == '=' || d == '>')) || (c == '=' && d == '=') || (c == '!' && d == '=')

/-- `c` followed by `d` does not lex as the one-character symbol `c`. -/
def pairs (c d : Char) : Bool :=
  twoOp c d || (c == '-' && d == '-') || (c == '/' && d == '*')

/-! ### lexemes and tokens -/

inductive QStyle where
  | bracket | dquote | backtick
  deriving DecidableEq, Repr, Inhabited

def QStyle.quoteChar : QStyle → Char
  | .bracket => '[' | .dquote => '"' | .backtick => '`'

inductive Lexeme where
  | ws (cs : List Char)                               -- maximal run of whitespace
  | lineComment (body : List Char) (nl : Bool)        -- `--` body [`\n`]
  | blockComment (body : List Char) (closed : Bool)   -- `/*` body [`*/`]
  | bare (cs : List Char)                             -- unquoted word / number
  | quoted (st : QStyle) (content : List Char)        -- quoted identifier, content unescaped
  | str (content : List Char)                         -- 'string literal', content unescaped
  | sym (cs : List Char)                              -- operator / punctuation
  | junk (cs : List Char)                             -- unterminated quoted token: raw rest of the input
  deriving DecidableEq, Repr, Inhabited

inductive Token where
  | word (cs : List Char)     -- bare word or identifier with its quoting stripped
  | str (cs : List Char)
  | sym (cs : List Char)
  | junk (cs : List Char)
  deriving DecidableEq, Repr, Inhabited

/-- What `canon` keeps of a lexeme: nothing of whitespace and comments, the
content (not the style) of a quoted identifier, everything else as is. -/
def strip : Lexeme → Option Token
  | .ws _ => none
  | .lineComment _ _ => none
  | .blockComment _ _ => none
  | .bare cs => some (.word cs)
  | .quoted _ c => some (.word c)
  | .str c => some (.str c)
  | .sym cs => some (.sym cs)
  | .junk cs => some (.junk cs)

/-! ### scanners -/

/-- Escape a quote character by doubling it. -/
def escQ (q : Char) (content : List Char) : List Char :=
  content.flatMap fun c => if c = q then [q, q] else [c]

/-- After an opening quote `q`: the unescaped content up to the closing quote
and the rest after it; `none` when the closing quote is missing. -/
def scanQ (q : Char) : List Char → Option (List Char × List Char)
  | [] => none
  | [c] => if c = q then some ([], []) else none
  | c :: d :: r =>
    if c = q then
      if d = q then (scanQ q r).map fun p => (q :: p.1, p.2)
      else some ([], d :: r)
    else (scanQ q (d :: r)).map fun p => (c :: p.1, p.2)

/-- After `/*`: body, whether `*/` was found, rest after it. -/
def scanBC : List Char → List Char × Bool × List Char
  | [] => ([], false, [])
  | [c] => ([c], false, [])
  | c :: d :: r =>
    if c = '*' ∧ d = '/' then ([], true, r)
    else let p := scanBC (d :: r); (c :: p.1, p.2.1, p.2.2)

/-- No `*/` inside. -/
def noSS : List Char → Bool
  | [] => true
  | [_] => true
  | c :: d :: r => if c = '*' ∧ d = '/' then false else noSS (d :: r)

/-! ### the lexer -/

def rawQuoted : QStyle → List Char → List Char
  | .bracket, c => '[' :: c ++ [']']
  | .dquote, c => '"' :: escQ '"' c ++ ['"']
  | .backtick, c => '`' :: escQ '`' c ++ ['`']

/-- The source text of a lexeme. -/
def raw : Lexeme → List Char
  | .ws cs => cs
  | .lineComment b nl => '-' :: '-' :: b ++ (if nl then ['\n'] else [])
  | .blockComment b closed => '/' :: '*' :: b ++ (if closed then ['*', '/'] else [])
  | .bare cs => cs
  | .quoted st c => rawQuoted st c
  | .str c => '\'' :: escQ '\'' c ++ ['\'']
  | .sym cs => cs
  | .junk cs => cs

def unlex (ls : List Lexeme) : List Char := ls.flatMap raw

/-- First lexeme of a non-empty input and the rest. -/
def lexOne : List Char → Option (Lexeme × List Char)
  | [] => none
  | c :: cs =>
    if isWs c then some (.ws (c :: cs.takeWhile isWs), cs.dropWhile isWs)
    else if isWordChar c then some (.bare (c :: cs.takeWhile isWordChar), cs.dropWhile isWordChar)
    else if c = '[' then
      match cs.dropWhile (· != ']') with
      | [] => some (.junk (c :: cs), [])
      | _ :: r => some (.quoted .bracket (cs.takeWhile (· != ']')), r)
    else if c = '"' then
      match scanQ '"' cs with
      | some (content, r) => some (.quoted .dquote content, r)
      | none => some (.junk (c :: cs), [])
    else if c = '`' then
      match scanQ '`' cs with
      | some (content, r) => some (.quoted .backtick content, r)
      | none => some (.junk (c :: cs), [])
    else if c = '\'' then
      match scanQ '\'' cs with
      | some (content, r) => some (.str content, r)
      | none => some (.junk (c :: cs), [])
    else
      match cs with
      | [] => some (.sym [c], [])
      | d :: r =>
        if c = '-' ∧ d = '-' then
          match r.dropWhile (· != '\n') with
          | [] => some (.lineComment (r.takeWhile (· != '\n')) false, [])
          | _ :: r' => some (.lineComment (r.takeWhile (· != '\n')) true, r')
        else if c = '/' ∧ d = '*' then
          let p := scanBC r
          some (.blockComment p.1 p.2.1, p.2.2)
        else if twoOp c d then some (.sym [c, d], r)
        else some (.sym [c], d :: r)

def lexF : Nat → List Char → List Lexeme
  | 0, _ => []
  | n + 1, s =>
    match lexOne s with
    | none => []
    | some (l, r) => l :: lexF n r

def lex (s : List Char) : List Lexeme := lexF s.length s

/-- The canonical token list of a piece of SQL text. -/
def canonChars (s : List Char) : List Token := (lex s).filterMap strip

def canon (s : String) : List Token := canonChars s.toList

/-! ### well-formed lexeme lists (= exactly the image of `lex`) -/

/-- The lexeme is one `lexOne` can produce. -/
def wfL : Lexeme → Bool
  | .ws cs => !cs.isEmpty && cs.all isWs
  | .lineComment b _ => b.all (· != '\n')
  | .blockComment b _ => noSS b
  | .bare cs => !cs.isEmpty && cs.all isWordChar
  | .quoted .bracket c => c.all (· != ']')
  | .quoted _ _ => true
  | .str _ => true
  | .sym [c] => isSymChar c
  | .sym [c, d] => isSymChar c && twoOp c d
  | .sym _ => false
  | .junk (q :: rest) =>
    (q == '[' && rest.all (· != ']')) ||
    ((q == '"' || q == '`' || q == '\'') && (scanQ q rest).isNone)
  | .junk [] => false

def headIs (p : Char → Bool) : List Char → Bool
  | [] => false
  | c :: _ => p c

/-- The lexeme, followed by the text `r`, is lexed as itself (the next
character does not extend or alter it). -/
def compat : Lexeme → List Char → Bool
  | .ws _, r => !headIs isWs r
  | .lineComment _ nl, r => nl || r.isEmpty
  | .blockComment _ closed, r => closed || r.isEmpty
  | .bare _, r => !headIs isWordChar r
  | .quoted .bracket _, _ => true
  | .quoted .dquote _, r => !headIs (· == '"') r
  | .quoted .backtick _, r => !headIs (· == '`') r
  | .str _, r => !headIs (· == '\'') r
  | .sym [c], r => !headIs (pairs c) r
  | .sym _, _ => true
  | .junk _, r => r.isEmpty

def LexWf : List Lexeme → Bool
  | [] => true
  | l :: ls => wfL l && compat l (unlex ls) && LexWf ls

/-! ### a canonical rendering of a token list -/

def isBareable (cs : List Char) : Bool := !cs.isEmpty && cs.all isWordChar

def tokLexeme : Token → Lexeme
  | .word cs => if isBareable cs then .bare cs else .quoted .dquote cs
  | .str cs => .str cs
  | .sym cs => .sym cs
  | .junk cs => .junk cs

def toLex : List Token → List Lexeme
  | [] => []
  | [t] => [tokLexeme t]
  | t :: ts => tokLexeme t :: .ws [' '] :: toLex ts

/-- Tokens separated by single blanks, identifiers bare where possible and
double-quoted otherwise. -/
def render (ts : List Token) : List Char := unlex (toLex ts)

def wfTok : Token → Bool
  | .junk _ => false
  | t => wfL (tokLexeme t)

/-- Token lists `canon` can produce: well-formed tokens, `junk` only last. -/
def TokWf : List Token → Bool
  | [] => true
  | [t] => wfL (tokLexeme t)
  | t :: ts => wfTok t && TokWf ts

end EngineModel.Spec.SqlCanon
