/-
Spec for C09: ordered listings.  Per key (a parent crate, or 0 for the roots; a
playlist for entries) the listing is a list of ids without repetition.  The
property text fixes, per operation, how the listing of a key may change:

* "a crate created after a given sibling appears immediately after it"      → `insertedAfter a x`
* "a crate created without a position or moved to a new parent appears
   among its new siblings"                                                   → `inserted x` (any position)
* "entries are listed in the order they were added"                          → `appended x`
* removal (of a crate, of an entry, or a move away)                          → `erased x`
* "no insert, remove, rename or move loses, duplicates or reorders the
   remaining items"                                                          → every other key: `same`

The executable functions `insertAfter`, `append`, `erase` are the canonical
witnesses (and what the 2.x implementation does: it appends).
-/
namespace EngineModel.Spec.Ordered

abbrev Id := Int

/-- `x` put immediately after `a` (at the end if `a` is absent). -/
def insertAfter (a x : Id) : List Id → List Id
  | [] => [x]
  | y :: l => if y = a then y :: x :: l else y :: insertAfter a x l

/-- `x` put immediately before `b` (at the end if `b` is absent, e.g. `b = 0`). -/
def insertBefore (b x : Id) : List Id → List Id
  | [] => [x]
  | y :: l => if y = b then x :: y :: l else y :: insertBefore b x l

inductive Change where
  | same
  | inserted (x : Id)
  | insertedAfter (a x : Id)
  | appended (x : Id)
  | erased (x : Id)
  | dropped                    -- the key itself ceased to exist: its listing is empty from now on
  deriving Repr, DecidableEq, Inhabited

/-- Does the step from listing `old` to listing `new` conform to the change the
property prescribes?  (Listings are duplicate-free; `new.Nodup` is demanded separately.) -/
def Change.holds : Change → List Id → List Id → Bool
  | .same, old, new => new == old
  | .inserted x, old, new => !old.contains x && new.contains x && new.erase x == old
  | .insertedAfter a x, old, new => !old.contains x && old.contains a && new == insertAfter a x old
  | .appended x, old, new => !old.contains x && new == old ++ [x]
  | .erased x, old, new => new == old.erase x
  | .dropped, _, new => new == []

def nodup (l : List Id) : Bool := l.eraseDups.length == l.length

end EngineModel.Spec.Ordered
