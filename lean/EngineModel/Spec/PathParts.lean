/-
Spec for C11's "derived per-track columns": the file-name part and the extension of a relative path,
said as simply as possible and WITHOUT the library's index arithmetic (the code, and its model
`TracksV1.getFilename` / `getExtension`, search the last separator with `rfind` and cut with `substr`):
  * the file name is the longest suffix of the path that contains no '/';
  * the extension of a file name is the longest suffix that contains no '.', provided the name contains a '.'
    at all (otherwise there is none).
-/
import EngineModel.Basic.Prim

namespace EngineModel.Spec.PathParts

def slash : UInt8 := 47
def dot : UInt8 := 46

/-- Longest suffix of `s` without the byte `c`. -/
def suffixWithout (c : UInt8) (s : Bytes) : Bytes := (s.reverse.takeWhile (· != c)).reverse

def fileNamePart (p : Bytes) : Bytes := suffixWithout slash p

def extensionPart (f : Bytes) : Option Bytes := if f.contains dot then some (suffixWithout dot f) else none

end EngineModel.Spec.PathParts
