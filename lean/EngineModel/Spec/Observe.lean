/-
Public operations as the monitors see them (C16, C10), on top of `Spec.Txn`:
an operation is the statement sequence it issues plus the answer it computes
from what the connection sees; a library at rest is a connection; a handle is
an id (every accessor queries the connection — engine_track_impl.hpp,
v2/track_impl.hpp hold only `(storage|library, id)`).
Also the reload model of C10: what `load_database` finds in a directory that
the library's own creator for schema `s` has written.
-/
import EngineModel.Spec.Txn
import EngineModel.Pure.Detect
import EngineModel.Gen.DetectGen

namespace EngineModel.Spec.Observe
open EngineModel.Spec.Txn

/-- A public operation: its statements and its answer (a function of the
database the connection sees when the call returns). -/
structure Op (α β : Type) where
  cmds : List (Cmd α)
  answer : α → β

/-- The monitor's classification: an operation is an observer when every
statement it steps is read-only (`sqlite3_stmt_readonly`, kind `read`). -/
def isObserver {α β : Type} (op : Op α β) : Bool := readOnlyShape (op.cmds.map Cmd.kind)

/-- The uniform step of the op alphabet: run the statements (no fault), return
the new connection state and the answer (`none` when the call raised). -/
def step {α β : Type} (c : Conn α) (op : Op α β) : Conn α × Option β :=
  let r := exec none false op.cmds 0 0 c
  (r.conn, if r.raised then none else some (op.answer r.conn.view))

/-- A history of operations; collects the answers. -/
def run {α β : Type} (c : Conn α) : List (Op α β) → Conn α × List (Option β)
  | [] => (c, [])
  | op :: ops =>
    let (c1, a) := step c op
    let (c2, as) := run c1 ops
    (c2, a :: as)

/-- A handle is an id; an accessor evaluates a query on what the connection sees. -/
structure Handle where
  id : Int
  deriving DecidableEq, Repr

def observe {α β : Type} (q : α → Int → β) (c : Conn α) (h : Handle) : β := q c.view h.id

/-- A public call with its fault plan, for histories that include failed calls. -/
structure Call (α : Type) where
  cmds : List (Cmd α)
  fault : Option Nat
  auto : Bool

def runCalls {α : Type} (c : Conn α) : List (Call α) → Conn α
  | [] => c
  | k :: ks => runCalls (exec k.fault k.auto k.cmds 0 0 c).conn ks

/-- The same history with every handle released and the library loaded again
after each call (what the tie's "close at every prefix" stream does). -/
def runCallsReopen {α : Type} (c : Conn α) : List (Call α) → Conn α
  | [] => c
  | k :: ks => runCallsReopen (exec k.fault k.auto k.cmds 0 0 c).conn.reopen ks

/-- A deterministic API model `step : state → op → state × result` (the
concrete models `Api.CratesV1.step`, `Db.V2.step`, `TracksV2.Db.set` …) seen
from the connection: a call makes the model's resulting state durable in one
statement. -/
def apiCall {α ω : Type} (step : α → ω → α) (op : ω) : Call α :=
  ⟨[.write fun db => some (step db op)], none, false⟩

/-- An accessor of a concrete model (`crateName db id`, `Db.snapshot ops db id`
…) as an operation of the monitor alphabet: `n` read statements and the answer
computed from what the connection sees. -/
def apiObserver {α β : Type} (n : Nat) (q : α → β) : Op α β := ⟨List.replicate n .read, q⟩

/-- A history over a concrete API model in the monitor's alphabet: mutating
calls of the model (`inl op`, one writing statement making `step db op`
durable) interleaved with accessors of the model (`inr (n, q)`, `n` reads). -/
def histOp {α β ω : Type} (step : α → ω → α) (ans : α → β) : ω ⊕ (Nat × (α → β)) → Op α β
  | .inl op => ⟨[.write fun db => some (step db op)], ans⟩
  | .inr (n, q) => apiObserver n q

/-- A call is *settled* when it raised (every scope unwinds) or its scopes are
properly closed. -/
def Call.settles {α : Type} (k : Call α) : Prop :=
  closedShape (k.cmds.map Cmd.kind) = true

/-! ### reload (C10 ii, iii) -/
open EngineModel.Pure.Detect

/-- Libraries of schema 1.x are written in the legacy layout (m.db, p.db),
2.x and later under Database2/ (engine.cpp `create_database`). -/
def legacyLayout (s : Schema) : Bool := s.ord < Schema.schema_2_18_0.ord

/-- What `load_database` reports for the directory written by the creator of
`s`: layout by family, version triple = the creator's stamp (regenerated from
the schema_*.hpp creators), marker = the variant's column declaration. -/
def loadCreated (s : Schema) : LoadOutcome :=
  let v := Gen.Detect.stampGen s
  loadModel Gen.Detect.detectGen (legacyLayout s) (!legacyLayout s) v.1 v.2.1 v.2.2 (s.marker == some true)

/-- `create_or_load_database(dir, req)` on a directory holding `existing`
(`none` = no library there): the created flag and what is then open. -/
def createOrLoadDir (existing : Option Schema) (req : Schema) : Bool × LoadOutcome :=
  createOrLoad (match existing with
    | none => loadModel Gen.Detect.detectGen false false 0 0 0 false
    | some s => loadCreated s) req

end EngineModel.Spec.Observe
