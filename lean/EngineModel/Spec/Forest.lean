/-
Spec for C07 (and the crate side of C08/C11): the simplest possible account of
the crate structure — a set of live crates, each with a name and an optional
parent — written from the property text, independent of both implementations.
Every structural query is *defined from `parent` alone*.
Ids are chosen by the implementation (the two schema generations allocate them
differently); the Spec only demands that a new id is not the id of a live crate.
The same Spec serves schema 1.x and 2.x; sibling *order* is the business of
Spec/Ordered (C09), here every listing is a set (compare sorted).
-/
import EngineModel.Basic.Prim

namespace EngineModel.Spec.Forest

abbrev Id := Int
abbrev Name := Bytes          -- names are byte strings; the library never interprets UTF-8

structure Crate where
  id : Id
  name : Name
  parent : Option Id
  deriving Repr, DecidableEq, Inhabited

/-- Live crates, oldest first (creation order; re-parenting does not reorder). -/
structure Forest where
  crates : List Crate
  deriving Repr, DecidableEq, Inhabited

def empty : Forest := ⟨[]⟩

def semicolon : UInt8 := 59

/-- "invalid names are rejected": empty, or containing the path separator. -/
def validName (n : Name) : Bool := !n.isEmpty && !n.contains semicolon

namespace Forest

def ids (f : Forest) : List Id := f.crates.map (·.id)
def live (f : Forest) (c : Id) : Bool := f.ids.contains c
def find (f : Forest) (c : Id) : Option Crate := f.crates.find? (·.id == c)
def parentOf (f : Forest) (c : Id) : Option Id := (f.find c).bind (·.parent)
def nameOf (f : Forest) (c : Id) : Option Name := (f.find c).map (·.name)

/-- children(c) = the crates whose parent is c. -/
def children (f : Forest) (c : Id) : List Id :=
  (f.crates.filter (fun x => x.parent == some c)).map (·.id)

/-- root_crates() = the parentless crates. -/
def roots (f : Forest) : List Id :=
  (f.crates.filter (fun x => x.parent == none)).map (·.id)

/-- Siblings-to-be under an optional parent. -/
def childrenOpt (f : Forest) : Option Id → List Id
  | none => f.roots
  | some p => f.children p

/-- Is `a` a strict ancestor of `c`?  Walk `parent` upwards; fuel = number of crates
(enough in an acyclic forest; in a cyclic one the walk stops and says `false`). -/
def isAncestorFuel (f : Forest) (a : Id) : Nat → Id → Bool
  | 0, _ => false
  | n + 1, c =>
    match f.parentOf c with
    | none => false
    | some p => p == a || isAncestorFuel f a n p

def isAncestor (f : Forest) (a c : Id) : Bool := isAncestorFuel f a f.crates.length c

/-- descendants(c) = transitive closure of children = crates having c as a strict ancestor. -/
def descendants (f : Forest) (c : Id) : List Id :=
  (f.crates.filter (fun x => f.isAncestor c x.id)).map (·.id)

def byName (f : Forest) (n : Name) : List Id :=
  (f.crates.filter (fun x => x.name == n)).map (·.id)

/-- Lookup by (parent, name): all matches (the API returns one; with unique sibling names there is at most one). -/
def byParentName (f : Forest) (p : Option Id) (n : Name) : List Id :=
  (f.crates.filter (fun x => x.parent == p && x.name == n)).map (·.id)

def nameTaken (f : Forest) (p : Option Id) (n : Name) (except : Option Id := none) : Bool :=
  f.crates.any (fun x => x.parent == p && x.name == n && some x.id != except)

end Forest

inductive Op where
  | createRoot (name : Name)
  | createSub (parent : Id) (name : Name)
  | rename (c : Id) (name : Name)
  | setParent (c : Id) (parent : Option Id)
  | remove (c : Id)
  deriving Repr, DecidableEq, Inhabited

/-- What the property demands of one operation.
`accept f'`: the call must succeed and the forest must then be `f'`;
`reject`: the call must throw (any exception derived from std::exception) and leave the forest unchanged;
`either f'`: the property does not say — the call may succeed (then `f'`) or throw (then unchanged). -/
inductive Verdict where
  | accept (f' : Forest)
  | reject
  | either (f' : Forest)
  deriving Repr, DecidableEq, Inhabited

/-- Drop a crate together with its whole subtree. -/
def removeSubtree (f : Forest) (c : Id) : Forest :=
  ⟨f.crates.filter (fun x => !(x.id == c || f.isAncestor c x.id))⟩

def setParentOf (f : Forest) (c : Id) (p : Option Id) : Forest :=
  ⟨f.crates.map (fun x => if x.id == c then { x with parent := p } else x)⟩

def setNameOf (f : Forest) (c : Id) (n : Name) : Forest :=
  ⟨f.crates.map (fun x => if x.id == c then { x with name := n } else x)⟩

/-- One step of the Spec.  `newId` is the id the implementation reported for a
creation (ignored by the other operations); it must not be the id of a live crate
(`freshId`, checked separately by the oracle so that a collision is named as such). -/
def step (f : Forest) (op : Op) (newId : Id := 0) : Verdict :=
  match op with
  | .createRoot n =>
    if !validName n then .reject
    else if f.nameTaken none n then .reject
    else .accept ⟨f.crates ++ [⟨newId, n, none⟩]⟩
  | .createSub p n =>
    if !f.live p then .reject
    else if !validName n then .reject
    else if f.nameTaken (some p) n then .reject
    else .accept ⟨f.crates ++ [⟨newId, n, some p⟩]⟩
  | .rename c n =>
    if !f.live c then .reject
    else if !validName n then .reject
    else if f.nameTaken (f.parentOf c) n (some c) then .either (setNameOf f c n)
    else .accept (setNameOf f c n)
  | .setParent c p =>
    if !f.live c then .reject
    else match p with
      | none =>
        match f.nameOf c with
        | some n => if f.nameTaken none n (some c) then .either (setParentOf f c none)
                    else .accept (setParentOf f c none)
        | none => .reject
      | some q =>
        if q == c then .reject                       -- self
        else if !f.live q then .reject               -- dead or foreign crate
        else if f.isAncestor c q then .reject        -- would create a cycle
        else match f.nameOf c with
          | some n => if f.nameTaken (some q) n (some c) then .either (setParentOf f c (some q))
                      else .accept (setParentOf f c (some q))
          | none => .reject
  | .remove c =>
    if !f.live c then .either f                      -- removing a removed crate: unspecified, but no effect
    else .accept (removeSubtree f c)

def freshId (f : Forest) (newId : Id) : Bool := !f.live newId

/-- The full structural observation the API offers, as a canonical value
(every listing sorted by id).  Two forests are observably equal iff these agree. -/
structure CrateObs where
  id : Id
  name : Name
  parent : Option Id
  children : List Id
  descendants : List Id
  deriving Repr, DecidableEq, Inhabited

def sortIds (l : List Id) : List Id := l.mergeSort (· ≤ ·)

def observe (f : Forest) : List Id × List Id × List CrateObs :=
  (sortIds f.ids, sortIds f.roots,
   (f.crates.mergeSort (fun a b => a.id ≤ b.id)).map fun c =>
     ⟨c.id, c.name, c.parent, sortIds (f.children c.id), sortIds (f.descendants c.id)⟩)

/-- The forest after a call with verdict `v` that succeeded (`true`) or threw (`false`);
`none` when the outcome contradicts the verdict. -/
def Verdict.next (v : Verdict) (f : Forest) (succeeded : Bool) : Option Forest :=
  match v, succeeded with
  | .accept f', true => some f'
  | .accept _, false => none
  | .reject, true => none
  | .reject, false => some f
  | .either f', true => some f'
  | .either _, false => some f

end EngineModel.Spec.Forest
