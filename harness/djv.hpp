// Shared declarations of the djv correspondence harness.
#pragma once
#include <cstddef>
#include <cstdint>
#include <cstring>
#include <functional>
#include <map>
#include <sstream>
#include <string>
#include <vector>

namespace djv
{
using args_t = std::vector<std::string>;
// A command returns its canonical result text (without the leading "ok ").
using cmd_fn = std::function<std::string(const args_t&)>;
void register_cmd(const std::string& name, cmd_fn fn);

struct registrar
{
    registrar(const std::string& name, cmd_fn fn) { register_cmd(name, fn); }
};
#define DJV_CMD(ident, name)                                   \
    static std::string djv_cmd_##ident(const djv::args_t& a);  \
    static djv::registrar djv_reg_##ident{name, djv_cmd_##ident}; \
    static std::string djv_cmd_##ident(const djv::args_t& a)

// ---- value formatting (canonical, shared with the Lean driver) ----
inline uint64_t dbits(double d)
{
    uint64_t u;
    std::memcpy(&u, &d, 8);
    return u;
}
inline double bitsd(uint64_t u)
{
    double d;
    std::memcpy(&d, &u, 8);
    return d;
}
std::string hex64(uint64_t u);              // 16 lower-case hex digits
std::string fd(double d);                   // double as hex bits
uint64_t parse_hex64(const std::string& s);
int64_t parse_i64(const std::string& s);
uint64_t parse_u64(const std::string& s);
std::string hexbytes(const std::vector<std::byte>& v);  // "-" when empty
std::string hexstr(const std::string& v);               // "-" when empty
std::vector<std::byte> parse_hexbytes(const std::string& s);
std::string parse_hexstr(const std::string& s);

struct bad_command : std::runtime_error
{
    using std::runtime_error::runtime_error;
};

// ---- instrumentation state (djv_wrap.cpp) ----
struct wrap_state
{
    // sqlite
    long steps = 0, write_steps = 0, prepares = 0;
    long fail_at_write = -1;  // fail the k-th (0-based) non-readonly first-step from now
    long writes_seen = 0;
    bool fault_fired = false;
    bool trace = false;
    std::vector<std::string> trace_lines;
    std::vector<void*> handles;  // sqlite3* captured from sqlite3_open_v2
    // zlib
    long inflate_calls = 0, deflate_calls = 0;
    long bad_region = 0;  // calls whose [next_in, next_in+avail_in) was not addressable
    long inflate_limit = 200000;
    // deflate call trace (codecs package: zlib_compress loops, C03)
    struct dcall { int flush; unsigned in_before, out_before, consumed, produced; int ret; };
    bool dtrace = false;
    std::vector<dcall> dcalls;
};
extern wrap_state g_wrap;
}  // namespace djv
