// Commands of the composite-v1 work-package (whole schema-1.x library, one transition system):
//   lib1.dump      raw dump of EVERY table of m.db and p.db that carries a key (read through the C API on the
//                  library's own connection, no library code on the read path except the six blob decoders):
//                  the crate tables (format of v1.obs), Track (id, idAlbumArt), MetaData / MetaDataInteger keys,
//                  PerformanceData ids, AlbumArt ids, every other table with a foreign key to Track, the two
//                  Information rows (uuid masked as M / P when it is the one found right after creation or load),
//                  sqlite_sequence of Track, and the full rows (v1.rows format) of every track with a path.
//   lib1.tobs      snapshot(), filename(), file_extension() of every track of tracks() and of every handle held.
//   lib1.pragmas   qualified PRAGMA music./perfdata. foreign_key_check and integrity_check (supporting checks).
//   lib1.fk        PRAGMA music.foreign_key_check alone (cheap: asked after EVERY call).
//   lib1.bk        row counts of the bookkeeping tables no public call reads (ChangeLog, Pack) — compared around
//                  observers only.
//   lib1.plantrefs <trackvar>   (not a library call) what Engine DJ writes when a track is put on a playlist, a history
//                  list, the prepare list and is a copied track: through the RAW connection, the parent rows Playlist /
//                  Historylist / Preparelist (id 1; tables before 1.9.1, views over List with INSTEAD OF triggers from
//                  1.9.1 — inserted through the name the schema provides, column lists from PRAGMA table_info) and one
//                  row each in PlaylistTrackList, HistorylistTrackList, PreparelistTrackList, CopiedTrack naming the
//                  track's id (a table that already has a row of the track is left alone).  Only for tracks that
//                  exist.  Answers `planted fk <PRAGMA music.foreign_key_check>`.
//   lib1.mark      remember the uuids of the two Information rows (call right after create / load).
#include <algorithm>
#include <map>
#include <optional>
#include <string>
#include <vector>

#include <sqlite3.h>

#include <djinterop/djinterop.hpp>

#include "djinterop/engine/v1/performance_data_format.hpp"
#include "djv.hpp"
#include "djv_state.hpp"
#include "djv_values.hpp"

using namespace djv;
using namespace djv::lib;
namespace dj = djinterop;
namespace ev1 = djinterop::engine::v1;

namespace
{
std::string g_uuid_m, g_uuid_p;

bool ge(const std::string& a, const char* b)
{
    auto& names = schema_names();
    int ia = -1, ib = -1;
    for (size_t i = 0; i < names.size(); ++i)
    {
        if (names[i].first == a) ia = (int)i;
        if (names[i].first == b) ib = (int)i;
    }
    if (ia < 0 || ib < 0) throw bad_command{"schema order"};
    return ia >= ib;
}

std::vector<std::byte> blob_of(sqlite3_stmt* st, int i)
{
    const auto* p = (const std::byte*)sqlite3_column_blob(st, i);
    int n = sqlite3_column_bytes(st, i);
    if (!p || n <= 0) return {};
    return std::vector<std::byte>(p, p + n);
}

template <class F>
std::string decoded(F f)
{
    try
    {
        return f();
    }
    catch (const std::exception&)
    {
        return "undecodable";
    }
}

std::string exn_name(const std::exception& e)
{
#define K(T, name) \
    if (dynamic_cast<const T*>(&e)) return name;
    K(dj::track_database_inconsistency, "track_database_inconsistency")
    K(dj::database_inconsistency, "database_inconsistency")
    K(dj::track_deleted, "track_deleted")
    K(std::invalid_argument, "invalid_argument")
    K(std::out_of_range, "out_of_range")
    K(std::logic_error, "logic_error")
    K(std::runtime_error, "runtime_error")
#undef K
    return "std_exception";
}

template <class F>
std::string guarded(F f)
{
    try
    {
        return f();
    }
    catch (const std::exception& e)
    {
        return "!" + exn_name(e);
    }
}

std::vector<std::string> text_col(sqlite3* h, const std::string& sql)
{
    std::vector<std::string> out;
    sqlite3_stmt* st = nullptr;
    if (sqlite3_prepare_v2(h, sql.c_str(), -1, &st, nullptr) != SQLITE_OK) return out;
    while (sqlite3_step(st) == SQLITE_ROW)
    {
        const char* p = (const char*)sqlite3_column_text(st, 0);
        out.push_back(p ? std::string(p, sqlite3_column_bytes(st, 0)) : std::string());
    }
    sqlite3_finalize(st);
    return out;
}

bool has_table(sqlite3* h, const std::string& db, const std::string& name)
{
    auto r = text_col(h, "SELECT name FROM " + db + ".sqlite_master WHERE name = '" + name + "'");
    return !r.empty();
}

// rows of one track in the format of v1.rows
std::string rows_of(sqlite3* h, const std::string& id)
{
    std::string cols =
        "playOrder, length, lengthCalculated, bpm, year, path, filename, bitrate, bpmAnalyzed, trackType, "
        "isExternalTrack, uuidOfExternalDatabase, idTrackInExternalDatabase, idAlbumArt";
    if (ge(S.schema, "schema_1_7_1")) cols += ", pdbImportKey";
    if (ge(S.schema, "schema_1_15_0")) cols += ", fileBytes, uri";
    if (ge(S.schema, "schema_1_18_0_desktop")) cols += ", isBeatGridLocked";
    std::string out = "T" + raw_query(h, "SELECT " + cols + " FROM Track WHERE id = " + id);
    out += " M" + raw_query(h, "SELECT type, text FROM MetaData WHERE id = " + id + " ORDER BY type");
    out += " I" + raw_query(h, "SELECT type, value FROM MetaDataInteger WHERE id = " + id + " ORDER BY type");
    std::string pc = "isAnalyzed, isRendered, hasSeratoValues";
    if (ge(S.schema, "schema_1_7_1")) pc += ", hasRekordboxValues";
    if (ge(S.schema, "schema_1_11_1")) pc += ", hasTraktorValues";
    out += " P" + raw_query(h, "SELECT " + pc + " FROM PerformanceData WHERE id = " + id);
    sqlite3_stmt* st = nullptr;
    std::string sql =
        "SELECT trackData, highResolutionWaveFormData, overviewWaveFormData, beatData, quickCues, loops "
        "FROM PerformanceData WHERE id = " + id;
    if (sqlite3_prepare_v2(h, sql.c_str(), -1, &st, nullptr) != SQLITE_OK) throw bad_command{"prepare"};
    int n = 0;
    while (sqlite3_step(st) == SQLITE_ROW)
    {
        ++n;
        auto b0 = blob_of(st, 0), b1 = blob_of(st, 1), b2 = blob_of(st, 2), b3 = blob_of(st, 3), b4 = blob_of(st, 4),
             b5 = blob_of(st, 5);
        out += " td{" + decoded([&] { return wr(ev1::track_data::decode(b0)); }) + "}";
        out += " hi{" + decoded([&] { return wr(ev1::high_res_waveform_data::decode(b1)); }) + "}";
        out += " ov{" + decoded([&] { return wr(ev1::overview_waveform_data::decode(b2)); }) + "}";
        out += " bt{" + decoded([&] { return wr(ev1::beat_data::decode(b3)); }) + "}";
        out += " qc{" + decoded([&] { return wr(ev1::quick_cues_data::decode(b4)); }) + "}";
        out += " lp{" + decoded([&] { return wr(ev1::loops_data::decode(b5)); }) + "}";
    }
    sqlite3_finalize(st);
    if (n == 0) out += " noperf";
    return out;
}

std::string info_rows(sqlite3* h, const std::string& db, const std::string& known, const char* mask)
{
    sqlite3_stmt* st = nullptr;
    std::string sql = "SELECT uuid, schemaVersionMajor, schemaVersionMinor, schemaVersionPatch FROM " + db +
                      ".Information ORDER BY id";
    if (sqlite3_prepare_v2(h, sql.c_str(), -1, &st, nullptr) != SQLITE_OK) return "ERR";
    std::string out;
    while (sqlite3_step(st) == SQLITE_ROW)
    {
        const char* p = (const char*)sqlite3_column_text(st, 0);
        std::string u = p ? std::string(p, sqlite3_column_bytes(st, 0)) : std::string();
        out += "(" + (u == known && !u.empty() ? std::string(mask) : "s" + hexstr(u)) + "," +
               std::to_string((long long)sqlite3_column_int64(st, 1)) + "," +
               std::to_string((long long)sqlite3_column_int64(st, 2)) + "," +
               std::to_string((long long)sqlite3_column_int64(st, 3)) + ")";
    }
    sqlite3_finalize(st);
    return out.empty() ? "()" : out;
}

bool has_list_views() { return !(S.schema == "schema_1_6_0" || S.schema == "schema_1_7_1"); }
}  // namespace

DJV_CMD(lib1_mark, "lib1.mark")
{
    if (is_v2()) throw bad_command{"lib1.mark on a 2.x library"};
    auto* h = main_handle();
    auto m = text_col(h, "SELECT uuid FROM music.Information");
    auto p = text_col(h, "SELECT uuid FROM perfdata.Information");
    g_uuid_m = m.empty() ? "" : m[0];
    g_uuid_p = p.empty() ? "" : p[0];
    return std::string(g_uuid_m.empty() ? "empty" : "nonempty") + " " + (g_uuid_p.empty() ? "empty" : "nonempty") + " " +
           (g_uuid_m == g_uuid_p ? "equal" : "distinct");
}

DJV_CMD(lib1_dump, "lib1.dump")
{
    if (is_v2()) throw bad_command{"lib1.dump on a 2.x library"};
    auto* h = main_handle();
    std::string o;
    o += "raw Crate " + raw_query(h, "SELECT id, title, path FROM Crate ORDER BY 1, 2, 3");
    o += " CPL " + raw_query(h, "SELECT crateOriginId, crateParentId FROM CrateParentList ORDER BY 1, 2");
    o += " CH " + raw_query(h, "SELECT crateId, crateIdChild FROM CrateHierarchy ORDER BY 1, 2");
    o += " CTL " + raw_query(h, "SELECT crateId, trackId FROM CrateTrackList ORDER BY 1, 2");
    o += " Track " + raw_query(h, "SELECT id, path IS NOT NULL FROM Track ORDER BY 1");
    o += " LTL " + (has_list_views()
                        ? raw_query(h, "SELECT listId, trackId FROM ListTrackList WHERE listType = 4 ORDER BY 1, 2")
                        : std::string("-"));
    o += " TA " + raw_query(h, "SELECT id, idAlbumArt FROM Track ORDER BY 1");
    o += " MD " + raw_query(h, "SELECT id, type FROM MetaData ORDER BY 1, 2");
    o += " MI " + raw_query(h, "SELECT id, type FROM MetaDataInteger ORDER BY 1, 2");
    o += " PD " + raw_query(h, "SELECT id FROM perfdata.PerformanceData ORDER BY 1");
    o += " AA " + raw_query(h, "SELECT id FROM AlbumArt ORDER BY 1");
    std::string ot = "SELECT 1, trackId FROM PlaylistTrackList UNION ALL SELECT 2, trackId FROM HistorylistTrackList "
                     "UNION ALL SELECT 3, trackId FROM PreparelistTrackList UNION ALL SELECT 5, trackId FROM CopiedTrack";
    if (has_list_views()) ot += " UNION ALL SELECT 6, trackId FROM ListTrackList WHERE listType <> 4";
    o += " OT " + raw_query(h, ot + " ORDER BY 1, 2");
    o += " IM " + info_rows(h, "music", g_uuid_m, "M");
    o += " IP " + info_rows(h, "perfdata", g_uuid_p, "P");
    o += " SEQ " + (has_table(h, "music", "sqlite_sequence")
                        ? raw_query(h, "SELECT seq FROM music.sqlite_sequence WHERE name = 'Track'")
                        : std::string("-"));
    sqlite3_stmt* st = nullptr;
    std::vector<long long> ids;
    if (sqlite3_prepare_v2(h, "SELECT id FROM Track WHERE path IS NOT NULL ORDER BY id", -1, &st, nullptr) == SQLITE_OK)
    {
        while (sqlite3_step(st) == SQLITE_ROW) ids.push_back(sqlite3_column_int64(st, 0));
        sqlite3_finalize(st);
    }
    for (auto id : ids) o += " R " + std::to_string(id) + " " + rows_of(h, std::to_string(id));
    return o;
}

DJV_CMD(lib1_tobs, "lib1.tobs")
{
    if (is_v2()) throw bad_command{"lib1.tobs on a 2.x library"};
    std::map<int64_t, dj::track> uni;
    std::string o = guarded([&] {
        auto all = DB().tracks();
        for (auto& t : all) uni.emplace(t.id(), t);
        return ids(tids(all), true);
    });
    for (auto& kv : S.tracks) uni.emplace(kv.second.id(), kv.second);
    for (auto& kv : uni)
    {
        auto t = kv.second;
        o += " T " + std::to_string((long long)kv.first);
        o += " " + guarded([&] { return std::string(t.is_valid() ? "1" : "0"); });
        o += " " + guarded([&] { return hexstr(t.filename()); });
        o += " " + guarded([&] { return hexstr(t.file_extension()); });
        o += " {" + guarded([&] { return wr_snapshot(t.snapshot()); }) + "}";
    }
    return o;
}

DJV_CMD(lib1_pragmas, "lib1.pragmas")
{
    if (is_v2()) throw bad_command{"lib1.pragmas on a 2.x library"};
    auto* h = main_handle();
    return "fkm " + raw_query(h, "PRAGMA music.foreign_key_check") + " fkp " +
           raw_query(h, "PRAGMA perfdata.foreign_key_check") + " icm " + raw_query(h, "PRAGMA music.integrity_check") +
           " icp " + raw_query(h, "PRAGMA perfdata.integrity_check");
}

DJV_CMD(lib1_fk, "lib1.fk")
{
    if (is_v2()) throw bad_command{"lib1.fk on a 2.x library"};
    return "fk " + raw_query(main_handle(), "PRAGMA music.foreign_key_check");
}

DJV_CMD(lib1_bk, "lib1.bk")
{
    if (is_v2()) throw bad_command{"lib1.bk on a 2.x library"};
    auto* h = main_handle();
    std::string o;
    for (const char* db : {"music", "perfdata"})
        for (const char* t : {"ChangeLog", "Pack"})
            if (has_table(h, db, t))
                o += std::string(o.empty() ? "" : " ") + db + "." + t + "=" +
                     raw_query(h, std::string("SELECT COUNT(*), IFNULL(MAX(id), 0) FROM ") + db + "." + t);
    return o.empty() ? "-" : o;
}

namespace
{
std::vector<std::string> columns_of(sqlite3* h, const std::string& name)
{
    std::vector<std::string> out;
    sqlite3_stmt* st = nullptr;
    std::string sql = "PRAGMA music.table_info(" + name + ")";
    if (sqlite3_prepare_v2(h, sql.c_str(), -1, &st, nullptr) != SQLITE_OK) throw bad_command{"table_info " + name};
    while (sqlite3_step(st) == SQLITE_ROW)
    {
        const char* p = (const char*)sqlite3_column_text(st, 1);
        out.push_back(p ? std::string(p) : std::string());
    }
    sqlite3_finalize(st);
    if (out.empty()) throw bad_command{"no columns: " + name};
    return out;
}

void exec_raw(sqlite3* h, const std::string& sql)
{
    char* err = nullptr;
    if (sqlite3_exec(h, sql.c_str(), nullptr, nullptr, &err) != SQLITE_OK)
    {
        std::string m = err ? err : "";
        sqlite3_free(err);
        throw bad_command{"plantrefs: " + m + " in " + sql};
    }
}

long long count_raw(sqlite3* h, const std::string& sql)
{
    sqlite3_stmt* st = nullptr;
    if (sqlite3_prepare_v2(h, sql.c_str(), -1, &st, nullptr) != SQLITE_OK) throw bad_command{"plantrefs: prepare " + sql};
    long long n = -1;
    if (sqlite3_step(st) == SQLITE_ROW) n = sqlite3_column_int64(st, 0);
    sqlite3_finalize(st);
    return n;
}

// INSERT INTO music.<name> (<all columns of table_info>) VALUES (<value(column)>)
template <class F>
void insert_row(sqlite3* h, const std::string& name, F value)
{
    std::string cols, vals;
    for (auto& c : columns_of(h, name))
    {
        cols += (cols.empty() ? "" : ", ") + ("[" + c + "]");
        vals += (vals.empty() ? "" : ", ") + value(c);
    }
    exec_raw(h, "INSERT INTO music." + name + " (" + cols + ") VALUES (" + vals + ")");
}
}  // namespace

DJV_CMD(lib1_plantrefs, "lib1.plantrefs")
{
    if (is_v2()) throw bad_command{"lib1.plantrefs on a 2.x library"};
    auto& t = TR(a.at(1));
    if (!t.is_valid()) return "skipped";
    const std::string id = std::to_string((long long)t.id());
    // `lib1.plantrefs <t> nulls`: the same rows with NULL in the nullable columns trackIdInOriginDatabase / databaseUuid
    // (candidate defect parked behind _lib1.PLANT_NULL_COLUMNS, see design/Lib1.md)
    const bool nulls = a.size() > 2 && a.at(2) == "nulls";
    auto* h = main_handle();
    auto us = text_col(h, "SELECT uuid FROM music.Information");
    const std::string uuid = "'" + (us.empty() ? std::string("u") : us[0]) + "'";
    const char* kinds[3][2] = {{"Playlist", "PlaylistTrackList"},
                               {"Historylist", "HistorylistTrackList"},
                               {"Preparelist", "PreparelistTrackList"}};
    for (auto& k : kinds)
    {
        const std::string parent = k[0], list = k[1];
        if (count_raw(h, "SELECT COUNT(*) FROM music." + parent + " WHERE id = 1") == 0)
            insert_row(h, parent, [&](const std::string& c) {
                return c == "id" ? std::string("1") : c == "title" ? "'Planted " + parent + "'" : std::string("0");
            });
        if (count_raw(h, "SELECT COUNT(*) FROM music." + list + " WHERE trackId = " + id) == 0)
            insert_row(h, list, [&](const std::string& c) {
                if (nulls && (c == "trackIdInOriginDatabase" || c == "databaseUuid")) return std::string("NULL");
                if (c == "trackId" || c == "trackIdInOriginDatabase") return id;
                if (c == "databaseUuid") return uuid;
                return std::string("1");        // playlistId / historylistId (the parent planted above), trackNumber, date
            });
    }
    if (count_raw(h, "SELECT COUNT(*) FROM music.CopiedTrack WHERE trackId = " + id) == 0)
        insert_row(h, "CopiedTrack", [&](const std::string& c) {
            if (c == "uuidOfSourceDatabase") return std::string("'00000000-0000-0000-0000-000000000001'");
            return id;                          // trackId, idOfTrackInSourceDatabase
        });
    return "planted fk " + raw_query(h, "PRAGMA music.foreign_key_check");
}
