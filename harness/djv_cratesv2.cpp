// Commands of the crates-v2 work-package (C07/C08/C09/C11, schema 2.x):
// full structural observation incl. lookups, raw Playlist / PlaylistEntity /
// Track dump through the C API, light-weight track creation, and the table-level
// playlist_entity_table operations.
#include <algorithm>
#include <cstdio>
#include <optional>
#include <set>

#include <sqlite3.h>

#include <djinterop/djinterop.hpp>
#include <djinterop/engine/engine.hpp>
#include <djinterop/engine/v2/engine_library.hpp>

#include "djv.hpp"
#include "djv_values.hpp"
#include "djv_state.hpp"

using namespace djv;
using namespace djv::lib;
namespace dj = djinterop;
namespace e = djinterop::engine;
namespace ev2 = djinterop::engine::v2;

namespace
{
std::string oid(const std::optional<dj::crate>& c) { return c ? std::to_string((long long)c->id()) : "none"; }

// The engine_library whose context the current database object shares (set by v2.create).
std::optional<ev2::engine_library> g_lib;

ev2::engine_library& v2lib()
{
    if (!g_lib) throw bad_command{"table-level commands need a library made by v2.create"};
    return *g_lib;
}
}  // namespace

// v2.create <schema> <mem|disk>: like `create`, but through engine_library so that the
// table-level objects (playlist_table, playlist_entity_table) of the same connection are reachable.
DJV_CMD(v2_create, "v2.create")
{
    auto sch = schema_of(a.at(1));
    bool disk = a.at(2) == "disk";
    g_lib.reset();
    reset_all();
    if (disk)
    {
        S.dir = new_dir();
        g_lib = ev2::engine_library::create(S.dir, sch);
    }
    else
    {
        S.dir = "";
        g_lib = ev2::engine_library::create_temporary(sch);
    }
    S.db = g_lib->database();
    S.disk = disk;
    S.schema = a.at(1);
    return "";
}

// v2.mktrack <var> <relative-path-hex>: create_track of a minimal valid snapshot
DJV_CMD(v2_mktrack, "v2.mktrack")
{
    dj::track_snapshot s;
    s.relative_path = parse_hexstr(a.at(2));
    auto t = DB().create_track(s);
    put_track(a.at(1), t);
    return "id=" + std::to_string((long long)t.id());
}

// v2.obs [probe-name-hex ...]: everything the public API tells about crates and memberships.
//   crates=[sorted] roots=[in order] {id n= p= ch=[in order] de=[sorted] tr=[in order] v= sub=[name:id,...]} ...
//   tracks=[sorted] names=[name:all=[sorted]:root=id,...] h=[var:id:valid:byid,...]
DJV_CMD(v2_obs, "v2.obs")
{
    std::string o;
    auto all = DB().crates();
    std::sort(all.begin(), all.end(), [](const dj::crate& x, const dj::crate& y) { return x.id() < y.id(); });
    std::set<std::string> names;
    for (size_t i = 1; i < a.size(); ++i) names.insert(parse_hexstr(a[i]));
    for (auto& c : all) names.insert(c.name());
    o += "crates=" + ids(cids(all), true);
    o += " roots=" + ids(cids(DB().root_crates()), false);
    for (auto& c : all)
    {
        o += " {" + std::to_string((long long)c.id()) + " n=" + hexstr(c.name()) + " p=" + oid(c.parent()) +
             " ch=" + ids(cids(c.children()), false) + " de=" + ids(cids(c.descendants()), true) +
             " tr=" + ids(tids(c.tracks()), false) + " v=" + (c.is_valid() ? "1" : "0") + " sub=[";
        bool first = true;
        for (auto& n : names)
        {
            o += (first ? "" : ",") + hexstr(n) + ":" + oid(c.sub_crate_by_name(n));
            first = false;
        }
        o += "]}";
    }
    o += " tracks=" + ids(tids(DB().tracks()), true);
    o += " names=[";
    {
        bool first = true;
        for (auto& n : names)
        {
            o += (first ? "" : ";") + hexstr(n) + ":all=" + ids(cids(DB().crates_by_name(n)), true) +
                 ":root=" + oid(DB().root_crate_by_name(n));
            first = false;
        }
    }
    o += "] h=[";
    {
        bool first = true;
        for (auto& kv : S.crates)
        {
            auto& c = kv.second;
            o += (first ? "" : ",") + kv.first + ":" + std::to_string((long long)c.id()) + ":" +
                 (c.is_valid() ? "1" : "0") + ":" + oid(DB().crate_by_id(c.id()));
            first = false;
        }
    }
    o += "]";
    return o;
}

// v2.raw: modelled columns of Playlist / PlaylistEntity / Track and the AUTOINCREMENT counters,
// read through the C API on the library's own connection (no library code on the path).
DJV_CMD(v2_raw, "v2.raw")
{
    auto h = main_handle();
    std::string o;
    o += "Playlist" + raw_query(h, "SELECT id, title, parentListId, isPersisted, nextListId, isExplicitlyExported "
                                   "FROM Playlist ORDER BY id");
    o += " PlaylistEntity" +
         raw_query(h, "SELECT id, listId, trackId, nextEntityId, membershipReference, "
                      "CASE WHEN databaseUuid = (SELECT uuid FROM Information) THEN 0 "
                      "ELSE CAST(substr(databaseUuid, 25) AS INTEGER) END FROM PlaylistEntity ORDER BY id");
    o += " Track" + raw_query(h, "SELECT id FROM Track ORDER BY id");
    o += " seq" + raw_query(h, "SELECT IFNULL((SELECT seq FROM sqlite_sequence WHERE name = 'Playlist'), 0), "
                               "IFNULL((SELECT seq FROM sqlite_sequence WHERE name = 'PlaylistEntity'), 0), "
                               "IFNULL((SELECT seq FROM sqlite_sequence WHERE name = 'Track'), 0)");
    return o;
}

// ---- table level (playlist_entity_table / playlist_table of the same connection)
// Database uuid tags: 0 = the library's own uuid (Information.uuid), k > 0 = the fixed foreign uuid
// 00000000-0000-0000-0000-<k as 12 digits> (a playlist may reference tracks of another database).
static std::string uuid_of_tag(ev2::engine_library& lib, int64_t tag)
{
    if (tag == 0) return lib.information().get().uuid;
    char buf[64];
    snprintf(buf, sizeof buf, "00000000-0000-0000-0000-%012lld", (long long)tag);
    return buf;
}
static int64_t tag_of_uuid(ev2::engine_library& lib, const std::string& u)
{
    if (u == lib.information().get().uuid) return 0;
    if (u.size() == 36 && u.compare(0, 24, "00000000-0000-0000-0000-") == 0) return std::stoll(u.substr(24));
    return -1;
}
// pe.add <list> <track> <uuid-tag> <throw_if_duplicate>
DJV_CMD(pe_add, "pe.add")
{
    auto& lib = v2lib();
    ev2::playlist_entity_row row{
        ev2::PLAYLIST_ENTITY_ROW_ID_NONE, parse_i64(a.at(1)), parse_i64(a.at(2)), uuid_of_tag(lib, parse_i64(a.at(3))),
        ev2::PLAYLIST_ENTITY_NO_NEXT_ENTITY_ID, ev2::PLAYLIST_ENTITY_DEFAULT_MEMBERSHIP_REFERENCE};
    auto id = lib.playlist_entity().add_back(row, a.at(4) == "1");
    return "id=" + std::to_string((long long)id);
}
// addforeign <crate-var> <track-var> <uuid-tag>: what other software sharing the library does — an entry for a
// track of ANOTHER database (tag > 0) that carries the same numeric id as the given track of this library
// is appended to the playlist of the crate (table-level add_back on the ids behind the two handles).
DJV_CMD(addforeign, "addforeign")
{
    auto& lib = v2lib();
    // other software only adds entries to playlists that exist
    if (!CR(a.at(1)).is_valid()) return "skipped";
    ev2::playlist_entity_row row{
        ev2::PLAYLIST_ENTITY_ROW_ID_NONE, CR(a.at(1)).id(), TR(a.at(2)).id(), uuid_of_tag(lib, parse_i64(a.at(3))),
        ev2::PLAYLIST_ENTITY_NO_NEXT_ENTITY_ID, ev2::PLAYLIST_ENTITY_DEFAULT_MEMBERSHIP_REFERENCE};
    lib.playlist_entity().add_back(row, false);
    return "";
}
DJV_CMD(pe_remove, "pe.remove")
{
    auto& lib = v2lib();
    lib.playlist_entity().remove(parse_i64(a.at(1)), parse_i64(a.at(2)));
    return "";
}
DJV_CMD(pe_clear, "pe.clear")
{
    auto& lib = v2lib();
    lib.playlist_entity().clear(parse_i64(a.at(1)));
    return "";
}
// pe.list <list>: get_for_list as entity:track:uuid-tag triples in order, then track_ids
DJV_CMD(pe_list, "pe.list")
{
    auto& lib = v2lib();
    std::string o = "[";
    bool first = true;
    for (auto& r : lib.playlist_entity().get_for_list(parse_i64(a.at(1))))
    {
        o += (first ? "" : ",") + std::to_string((long long)r.id) + ":" + std::to_string((long long)r.track_id) + ":" +
             std::to_string((long long)tag_of_uuid(lib, r.database_uuid));
        first = false;
    }
    o += "] ";
    std::vector<int64_t> t;
    for (auto id : lib.playlist_entity().track_ids(parse_i64(a.at(1)))) t.push_back(id);
    return o + ids(t, false);
}
// pl.list <parent>: playlist_table::child_ids (parent 0: root_ids), in order
DJV_CMD(pl_list, "pl.list")
{
    auto& lib = v2lib();
    auto p = parse_i64(a.at(1));
    std::vector<int64_t> t;
    if (p == 0)
        for (auto id : lib.playlist().root_ids()) t.push_back(id);
    else
        for (auto id : lib.playlist().child_ids(p)) t.push_back(id);
    return ids(t, false);
}
