// C15: public operations that no other command group calls.
//   c15.crate_db <crate>            crate::db(): the database handle obtained from a crate answers uuid()
//   c15.add_tracks <crate> <t>...   crate::add_tracks(first, last) (header template over add_track)
//   c15.handles <crate|-> <track|-> copy-construct, copy-assign, move and destroy handles (crate, track, database)
#include "djv.hpp"
#include "djv_state.hpp"

namespace dj = djinterop;
using namespace djv;
using namespace djv::lib;

DJV_CMD(c15_crate_db, "c15.crate_db")
{
    auto d = CR(a.at(1)).db();
    (void)d.uuid();
    return "";
}

DJV_CMD(c15_add_tracks, "c15.add_tracks")
{
    std::vector<dj::track> ts;
    for (size_t i = 2; i < a.size(); ++i) ts.push_back(TR(a.at(i)));
    CR(a.at(1)).add_tracks(ts.begin(), ts.end());
    return "";
}

DJV_CMD(c15_handles, "c15.handles")
{
    if (a.at(1) != "-")
    {
        dj::crate c1 = CR(a.at(1));
        dj::crate c2 = c1;
        c2 = c1;
        dj::crate c3 = std::move(c2);
        c1 = std::move(c3);
        (void)c1.id();
    }
    if (a.at(2) != "-")
    {
        dj::track t1 = TR(a.at(2));
        dj::track t2 = t1;
        t2 = t1;
        dj::track t3 = std::move(t2);
        t1 = std::move(t3);
        (void)t1.id();
    }
    dj::database d1 = DB();
    dj::database d2 = d1;
    d2 = d1;
    return "";
}
