// Whole-library dumps of a schema-2.x database for the composite model (lean/EngineModel/Lib/V2.lean,
// driver mode `lib2`).  Everything is read through the C API on the library's own connection (no library
// code on the SQL path; blobs of lib2.rows are decoded by the library's decoders, as in t2.row).
//   lib2.raw     every table the composite model holds, key columns:
//                info(uuid,major,minor,patch) seq(Track,Playlist,PlaylistEntity,ChangeLog,PreparelistEntity) Track(...)… Playlist(...)…
//                PlaylistEntity(...)… ChangeLog(...)…|absent AlbumArt(...)… PreparelistEntity(...)…
//                (Information.uuid is printed as the token UUID when it is a non-empty text; a column equal to it
//                 likewise; PlaylistEntity.databaseUuid as tag 0 when equal to it)
//   lib2.rows    every column of every Track row (format of t2.row), ordered by id
//   lib2.pragma  PRAGMA foreign_key_check / integrity_check on the connection
#include <sqlite3.h>

#include <djinterop/djinterop.hpp>
#include <djinterop/engine/engine.hpp>

#include "djv.hpp"
#include "djv_state.hpp"
#include "djv_values.hpp"

using namespace djv;
using namespace djv::lib;
namespace ev2 = djinterop::engine::v2;

namespace
{
std::string scalar(sqlite3_stmt* st, int i)
{
    switch (sqlite3_column_type(st, i))
    {
        case SQLITE_NULL: return "null";
        case SQLITE_INTEGER: return std::to_string((long long)sqlite3_column_int64(st, i));
        case SQLITE_FLOAT: return "f" + fd(sqlite3_column_double(st, i));
        case SQLITE_TEXT:
        {
            std::string s((const char*)sqlite3_column_text(st, i), sqlite3_column_bytes(st, i));
            return "s" + hexstr(s);
        }
        default: return "blob";
    }
}

std::vector<std::byte> blob_of(sqlite3_stmt* st, int i)
{
    const auto* p = (const std::byte*)sqlite3_column_blob(st, i);
    return std::vector<std::byte>(p, p + sqlite3_column_bytes(st, i));
}

template <class B>
std::string decoded(sqlite3_stmt* st, int i)
{
    if (sqlite3_column_type(st, i) != SQLITE_BLOB) return "not-a-blob";
    try
    {
        return wr(B::from_blob(blob_of(st, i)));
    }
    catch (const std::exception&)
    {
        return "undecodable";
    }
}

bool table_exists(sqlite3* h, const std::string& name)
{
    return raw_query(h, "SELECT 1 FROM sqlite_master WHERE type = 'table' AND name = '" + name + "'") != "()";
}

std::string seq_of(sqlite3* h, const std::string& name)
{
    auto r = raw_query(h, "SELECT seq FROM sqlite_sequence WHERE name = '" + name + "'");
    if (r == "()") return "none";
    return r.substr(1, r.size() - 2);
}
}  // namespace

DJV_CMD(lib2_raw, "lib2.raw")
{
    sqlite3* h = main_handle();
    std::string o;
    // Information: exactly one row expected; the uuid is masked when it is a non-empty text
    o += "info" + raw_query(h,
                            "SELECT CASE WHEN typeof(uuid) = 'text' AND uuid <> '' THEN 'UUID' ELSE uuid END, "
                            "schemaVersionMajor, schemaVersionMinor, schemaVersionPatch FROM Information ORDER BY id");
    // 'UUID' came back as text: sUUID in hex -> restore the token
    {
        const std::string masked = "s" + hexstr("UUID");
        auto p = o.find(masked);
        if (p != std::string::npos) o.replace(p, masked.size(), "UUID");
    }
    bool has_log = table_exists(h, "ChangeLog");
    o += " seq(" + seq_of(h, "Track") + "," + seq_of(h, "Playlist") + "," + seq_of(h, "PlaylistEntity") + "," +
         (has_log ? seq_of(h, "ChangeLog") : std::string("absent")) + "," + seq_of(h, "PreparelistEntity") + ")";
    {
        std::string t = raw_query(h,
                                  "SELECT id, path, filename, fileType, "
                                  "CASE WHEN originDatabaseUuid = (SELECT uuid FROM Information) THEN 'UUID' ELSE "
                                  "originDatabaseUuid END, originTrackId, albumArtId FROM Track ORDER BY id");
        const std::string masked = "s" + hexstr("UUID");
        for (auto p = t.find(masked); p != std::string::npos; p = t.find(masked, p + 4))
            t.replace(p, masked.size(), "UUID");
        o += " Track" + t;
    }
    o += " Playlist" + raw_query(h,
                                 "SELECT id, title, parentListId, isPersisted, nextListId, isExplicitlyExported "
                                 "FROM Playlist ORDER BY id");
    o += " PlaylistEntity" +
         raw_query(h,
                   "SELECT id, listId, trackId, nextEntityId, membershipReference, "
                   "CASE WHEN databaseUuid = (SELECT uuid FROM Information) THEN 0 "
                   "WHEN databaseUuid LIKE '00000000-0000-0000-0000-%' THEN CAST(substr(databaseUuid, 25) AS INTEGER) "
                   "ELSE -1 END FROM PlaylistEntity ORDER BY id");
    o += " ChangeLog" + (has_log ? raw_query(h, "SELECT id, trackId FROM ChangeLog ORDER BY id") : std::string("absent"));
    o += " AlbumArt" + raw_query(h, "SELECT id FROM AlbumArt ORDER BY id");
    o += " PreparelistEntity" + raw_query(h, "SELECT id, trackId FROM PreparelistEntity ORDER BY id");
    return o;
}

// lib2.plantprep <trackvar>: what Engine does when a track is put on the prepare list — a PreparelistEntity row
// for the track (the library itself never inserts into this table).  Only for tracks that exist.
DJV_CMD(lib2_plantprep, "lib2.plantprep")
{
    auto& t = TR(a.at(1));
    if (!t.is_valid()) return "skipped";
    std::string sql = "INSERT INTO PreparelistEntity (trackId, trackNumber) VALUES (" + std::to_string((long long)t.id()) + ", 1)";
    char* err = nullptr;
    if (sqlite3_exec(main_handle(), sql.c_str(), nullptr, nullptr, &err) != SQLITE_OK)
    {
        std::string m = err ? err : "";
        sqlite3_free(err);
        throw bad_command{"plantprep: " + m};
    }
    return "";
}

DJV_CMD(lib2_rows, "lib2.rows")
{
    bool has_aoll = S.schema != "schema_2_18_0";
    std::string sql =
        "SELECT id, originTrackId, originDatabaseUuid = (SELECT uuid FROM Information), "
        "playOrder, length, bpm, year, path, filename, bitrate, bpmAnalyzed, albumArtId, fileBytes, title, "
        "artist, album, genre, comment, label, composer, remixer, key, rating, albumArt, timeLastPlayed, "
        "isPlayed, fileType, isAnalyzed, dateCreated, isAvailable, isMetadataOfPackedTrackChanged, "
        "isPerfomanceDataOfPackedTrackChanged, playedIndicator, isMetadataImported, pdbImportKey, "
        "streamingSource, uri, isBeatGridLocked, thirdPartySourceId, streamingFlags, explicitLyrics, " +
        std::string(has_aoll ? "activeOnLoadLoops" : "'absent'") +
        ", trackData, overviewWaveFormData, beatData, quickCues, loops "
        "FROM Track ORDER BY id";
    sqlite3_stmt* st = nullptr;
    sqlite3* h = main_handle();
    if (sqlite3_prepare_v2(h, sql.c_str(), -1, &st, nullptr) != SQLITE_OK)
        throw bad_command{std::string("prepare: ") + sqlite3_errmsg(h)};
    std::string rows;
    int n = 0;
    while (sqlite3_step(st) == SQLITE_ROW)
    {
        ++n;
        rows += " || id=" + std::to_string((long long)sqlite3_column_int64(st, 0));
        for (int i = 3; i <= 41; ++i)
        {
            if (i == 41 && !has_aoll)
            {
                rows += " absent";
                continue;
            }
            rows += " " + scalar(st, i);
        }
        rows += " | " + decoded<ev2::track_data_blob>(st, 42);
        rows += " | " + decoded<ev2::overview_waveform_data_blob>(st, 43);
        rows += " | " + decoded<ev2::beat_data_blob>(st, 44);
        rows += " | " + decoded<ev2::quick_cues_blob>(st, 45);
        rows += " | " + decoded<ev2::loops_blob>(st, 46);
    }
    sqlite3_finalize(st);
    return "n=" + std::to_string(n) + rows;
}

DJV_CMD(lib2_pragma, "lib2.pragma")
{
    sqlite3* h = main_handle();
    std::string fk = raw_query(h, "PRAGMA foreign_key_check");
    std::string ic = raw_query(h, "PRAGMA integrity_check");
    return "fk=" + fk + " integrity=" + ic;
}
