// Catalog dumps for C12 / C17: sqlite_master, PRAGMA table_info / index_list /
// index_info read through the SQLite C API (never through library code) from
//   (a) the library just created by the real code  (schema.dump), and
//   (b) a reference script hydrated into empty in-memory databases (schema.ref).
// Text form (one line): see lean/EngineModel/Driver/Cmds/Schema.lean (pDump).
#include <algorithm>
#include <filesystem>
#include <fstream>
#include <optional>
#include <sstream>

#include <sqlite3.h>

#include <djinterop/djinterop.hpp>
#include <djinterop/engine/engine.hpp>

#include "djv.hpp"
#include "djv_state.hpp"

using namespace djv;
using namespace djv::lib;
namespace dj = djinterop;
namespace e = djinterop::engine;
namespace fs = std::filesystem;

namespace djv
{
namespace schema
{
using ostr = std::optional<std::string>;
using row = std::vector<ostr>;

std::vector<row> query(sqlite3* h, const std::string& sql)
{
    sqlite3_stmt* st = nullptr;
    if (sqlite3_prepare_v2(h, sql.c_str(), -1, &st, nullptr) != SQLITE_OK)
        throw bad_command{std::string("sql: ") + sqlite3_errmsg(h) + " in " + sql};
    std::vector<row> out;
    int rc;
    while ((rc = sqlite3_step(st)) == SQLITE_ROW)
    {
        row r;
        int n = sqlite3_column_count(st);
        for (int i = 0; i < n; ++i)
        {
            if (sqlite3_column_type(st, i) == SQLITE_NULL) r.push_back(std::nullopt);
            else
                r.push_back(std::string((const char*)sqlite3_column_text(st, i),
                                        (size_t)sqlite3_column_bytes(st, i)));
        }
        out.push_back(std::move(r));
    }
    sqlite3_finalize(st);
    if (rc != SQLITE_DONE) throw bad_command{"sql step: " + sql};
    return out;
}

static std::string hx(const ostr& s) { return s ? hexstr(*s) : std::string("none"); }
static std::string hs(const ostr& s) { return hexstr(s ? *s : std::string()); }
static std::string num(const ostr& s) { return s ? *s : std::string("0"); }
static std::string sqlq(const std::string& s)
{
    std::string o = "'";
    for (char c : s)
    {
        if (c == '\'') o += "''";
        else o += c;
    }
    return o + "'";
}

struct parts
{
    std::vector<std::string> m, t, x;
};

// dump the catalog of sqlite schema `sname` of connection h, labelled `label`
void dump_db(sqlite3* h, const std::string& sname, const std::string& label, parts& p)
{
    auto master = query(h, "SELECT type, name, tbl_name, sql FROM " + sname +
                               ".sqlite_master ORDER BY type, name");
    for (auto& r : master)
    {
        p.m.push_back(label + " " + *r[0] + " " + hs(r[1]) + " " + hs(r[2]) + " " + hx(r[3]));
        if (*r[0] != "table" && *r[0] != "view") continue;
        {
            auto cols = query(h, "PRAGMA " + sname + ".table_info(" + sqlq(*r[1]) + ")");
            std::string s = label + " " + hs(r[1]) + " " + std::to_string(cols.size());
            for (auto& c : cols)
                s += " " + hs(c[1]) + " " + hs(c[2]) + " " + num(c[3]) + " " + hx(c[4]) + " " + num(c[5]);
            p.t.push_back(s);
        }
        if (*r[0] != "table") continue;
        {
            auto idx = query(h, "PRAGMA " + sname + ".index_list(" + sqlq(*r[1]) + ")");
            std::sort(idx.begin(), idx.end(), [](const row& a, const row& b) { return *a[1] < *b[1]; });
            std::string s = label + " " + hs(r[1]) + " " + std::to_string(idx.size());
            for (auto& i : idx)
            {
                auto ic = query(h, "PRAGMA " + sname + ".index_info(" + sqlq(*i[1]) + ")");
                s += " " + hs(i[1]) + " " + num(i[2]) + " " + hs(i[3]) + " " + num(i[4]) + " " +
                     std::to_string(ic.size());
                for (auto& c : ic) s += " " + num(c[0]) + " " + hx(c[2]);
            }
            p.x.push_back(s);
        }
    }
}

std::string render(const parts& p)
{
    std::string o = "M " + std::to_string(p.m.size());
    for (auto& s : p.m) o += " " + s;
    o += " T " + std::to_string(p.t.size());
    for (auto& s : p.t) o += " " + s;
    o += " X " + std::to_string(p.x.size());
    for (auto& s : p.x) o += " " + s;
    return o;
}

// "ver <maj> <min> <pat> <numeric>" from the Information row and the 1.18.0 variant marker
std::string version_of(sqlite3* h, const std::string& sname)
{
    auto v = query(h, "SELECT schemaVersionMajor, schemaVersionMinor, schemaVersionPatch FROM " + sname +
                          ".Information");
    if (v.size() != 1) return "ver rows=" + std::to_string(v.size());
    std::string numeric = "0";
    for (auto& c : query(h, "PRAGMA " + sname + ".table_info('Track')"))
        if (c[1] && *c[1] == "isExternalTrack" && c[2] && *c[2] == "NUMERIC") numeric = "1";
    return "ver " + num(v[0][0]) + " " + num(v[0][1]) + " " + num(v[0][2]) + " " + numeric;
}

struct conn
{
    sqlite3* h = nullptr;
    explicit conn(const std::string& path)
    {
        if (sqlite3_open(path.c_str(), &h) != SQLITE_OK) throw bad_command{"open " + path};
    }
    ~conn() { sqlite3_close(h); }
    void exec(const std::string& sql)
    {
        char* err = nullptr;
        if (sqlite3_exec(h, sql.c_str(), nullptr, nullptr, &err) != SQLITE_OK)
        {
            std::string m = err ? err : "";
            sqlite3_free(err);
            throw bad_command{"exec: " + m};
        }
    }
};

std::string slurp(const std::string& path)
{
    std::ifstream in(path, std::ios::binary);
    if (!in) throw bad_command{"cannot read " + path};
    std::stringstream ss;
    ss << in.rdbuf();
    return ss.str();
}
}  // namespace schema
}  // namespace djv
using namespace djv::schema;

// schema.dump: catalog of the library currently open (created or loaded by the real code)
DJV_CMD(schema_dump, "schema.dump")
{
    (void)DB();
    auto h = main_handle();
    parts p;
    if (is_v2())
    {
        dump_db(h, "main", "main", p);
        return version_of(h, "main") + " " + render(p);
    }
    dump_db(h, "music", "music", p);
    dump_db(h, "perfdata", "perfdata", p);
    auto v1 = version_of(h, "music");
    auto v2 = query(h, "SELECT schemaVersionMajor, schemaVersionMinor, schemaVersionPatch FROM perfdata.Information");
    std::string pv = v2.size() == 1 ? num(v2[0][0]) + " " + num(v2[0][1]) + " " + num(v2[0][2]) : "rows";
    return v1 + " perf " + pv + " " + render(p);
}

// schema.ref <script-dir-hex>: hydrate the reference script(s) of that directory into empty
// in-memory databases with plain SQLite and dump their catalogs
DJV_CMD(schema_ref, "schema.ref")
{
    auto dir = parse_hexstr(a.at(1));
    parts p;
    if (fs::exists(dir + "/Database2/m.db.sql"))
    {
        conn c{":memory:"};
        c.exec(slurp(dir + "/Database2/m.db.sql"));
        dump_db(c.h, "main", "main", p);
        return version_of(c.h, "main") + " " + render(p);
    }
    conn m{":memory:"}, pd{":memory:"};
    m.exec(slurp(dir + "/m.db.sql"));
    pd.exec(slurp(dir + "/p.db.sql"));
    dump_db(m.h, "main", "music", p);
    dump_db(pd.h, "main", "perfdata", p);
    auto v2 = query(pd.h, "SELECT schemaVersionMajor, schemaVersionMinor, schemaVersionPatch FROM Information");
    std::string pv = v2.size() == 1 ? num(v2[0][0]) + " " + num(v2[0][1]) + " " + num(v2[0][2]) : "rows";
    return version_of(m.h, "main") + " perf " + pv + " " + render(p);
}

// schema.refload <script-dir-hex>: the library's own path for reference scripts
// (create_database_from_scripts = hydrate + load_database), then verify()
DJV_CMD(schema_refload, "schema.refload")
{
    auto dir = parse_hexstr(a.at(1));
    reset_all();
    S.dir = new_dir();
    e::engine_schema loaded{};
    S.db = e::create_database_from_scripts(S.dir, dir, loaded);
    S.schema = name_of(loaded);
    S.disk = true;
    std::string v;
    try
    {
        DB().verify();
        v = "ok";
    }
    catch (const dj::database_inconsistency& ex)
    {
        v = std::string("database_inconsistency:") + hexstr(ex.what());
    }
    return S.schema + " verify=" + v;
}
