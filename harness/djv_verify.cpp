// C17: rebuild an empty library from (mutated) DDL and run the real verify().
//
//   sv.base                         after `create <schema> disk`: remember the DDL statements of the
//                                   created library (sqlite_master in creation order), its version
//                                   triple and its catalog (sql text dropped).  Answers the statement
//                                   list:  n (<label> <type> <hexname> <hextbl> <hexsql>)*
//   sv.mut <label> <nomit> <idx>* <nrepl> (<idx> <hexsql>)* <nadd> <hexsql>*
//                                   rebuild every database file of the library from the remembered
//                                   statements, with the given edits applied to database <label>
//                                   (`-` = no edit), then
//                                     load=…  the public load_database() on the rebuilt directory
//                                     pub=…   database::verify() of what was loaded
//                                     int=…   make_schema_creator_validator(<base schema>)->verify()
//                                             on the library's own kind of connection
//                                   and the difference between the rebuilt catalog and the remembered
//                                   one, read by the independent reader of djv_schema.cpp:
//                                     minus <dump> plus <dump>
// The rebuilt files carry one Information row with the base version triple (best effort:
// a mutant whose Information table cannot take it has none).
#include <algorithm>
#include <filesystem>
#include <optional>
#include <set>
#include <typeinfo>

#include <sqlite3.h>
#include <sqlite_modern_cpp.h>

#include <djinterop/djinterop.hpp>
#include <djinterop/engine/engine.hpp>

#include "djinterop/engine/engine_library_dir_utils.hpp"
#include "djinterop/engine/schema/schema.hpp"

#include "djv.hpp"
#include "djv_state.hpp"

using namespace djv;
using namespace djv::lib;
namespace dj = djinterop;
namespace e = djinterop::engine;
namespace fs = std::filesystem;

namespace djv
{
namespace schema
{
using ostr = std::optional<std::string>;
using row = std::vector<ostr>;
struct parts
{
    std::vector<std::string> m, t, x;
};
std::vector<row> query(sqlite3* h, const std::string& sql);
void dump_db(sqlite3* h, const std::string& sname, const std::string& label, parts& p);
std::string render(const parts& p);
}  // namespace schema
}  // namespace djv
using namespace djv::schema;

namespace
{
struct stmt
{
    std::string label, type, name, tbl, sql;
};
struct base_state
{
    bool set = false;
    bool v2 = false;
    std::string schema;
    std::vector<std::string> labels;
    std::vector<stmt> stmts;
    std::string ver[3];
    parts cat;
};
base_state B;

// drop the DDL text of a master entry ("label type name tbl sql" -> "... none")
std::string nosql(const std::string& m)
{
    auto k = m.rfind(' ');
    return m.substr(0, k) + " none";
}
void strip_sql(parts& p)
{
    for (auto& m : p.m) m = nosql(m);
}

parts diff(const parts& a, const parts& b)  // entries of a that are not in b
{
    parts o;
    auto d = [](const std::vector<std::string>& x, const std::vector<std::string>& y, std::vector<std::string>& out)
    {
        std::multiset<std::string> ys(y.begin(), y.end());
        for (auto& s : x)
        {
            auto it = ys.find(s);
            if (it == ys.end()) out.push_back(s);
            else ys.erase(it);
        }
    };
    d(a.m, b.m, o.m);
    d(a.t, b.t, o.t);
    d(a.x, b.x, o.x);
    return o;
}

struct rawconn
{
    sqlite3* h = nullptr;
    explicit rawconn(const std::string& path)
    {
        if (sqlite3_open(path.c_str(), &h) != SQLITE_OK) throw bad_command{"open " + path};
    }
    ~rawconn() { sqlite3_close(h); }
    bool exec(const std::string& sql, std::string* err = nullptr)
    {
        char* e = nullptr;
        if (sqlite3_exec(h, sql.c_str(), nullptr, nullptr, &e) != SQLITE_OK)
        {
            if (err) *err = e ? e : "";
            sqlite3_free(e);
            return false;
        }
        return true;
    }
};

std::string file_of(const std::string& dir, const std::string& label)
{
    if (label == "main") return dir + "/Database2/m.db";
    return dir + (label == "music" ? "/m.db" : "/p.db");
}

template <class F>
std::string outcome(F f)
{
    try
    {
        f();
        return "ok";
    }
    catch (const dj::database_inconsistency&)
    {
        return "inconsistency";
    }
    catch (const std::exception& ex)
    {
        return std::string("throw:") + typeid(ex).name();
    }
}
}  // namespace

DJV_CMD(sv_base, "sv.base")
{
    (void)DB();
    auto h = main_handle();
    B = base_state{};
    B.v2 = is_v2();
    B.schema = S.schema;
    B.labels = B.v2 ? std::vector<std::string>{"main"} : std::vector<std::string>{"music", "perfdata"};
    std::string out;
    for (auto& l : B.labels)
    {
        auto rows = query(h, "SELECT type, name, tbl_name, sql FROM " + l +
                                 ".sqlite_master WHERE sql IS NOT NULL AND name NOT LIKE 'sqlite_%' ORDER BY rowid");
        for (auto& r : rows)
        {
            B.stmts.push_back({l, *r[0], *r[1], *r[2], *r[3]});
            out += " " + l + " " + *r[0] + " " + hexstr(*r[1]) + " " + hexstr(*r[2]) + " " + hexstr(*r[3]);
        }
        dump_db(h, l, l, B.cat);
    }
    strip_sql(B.cat);
    auto v = query(h, std::string("SELECT schemaVersionMajor, schemaVersionMinor, schemaVersionPatch FROM ") +
                          B.labels[0] + ".Information");
    if (v.size() != 1) throw bad_command{"Information rows"};
    for (int i = 0; i < 3; ++i) B.ver[i] = v[0][i] ? *v[0][i] : "0";
    B.set = true;
    return std::to_string(B.stmts.size()) + out;
}

DJV_CMD(sv_mut, "sv.mut")
{
    if (!B.set) throw bad_command{"no base"};
    size_t k = 1;
    auto next = [&]() -> const std::string& { return a.at(k++); };
    std::string label = next();
    std::set<size_t> omit;
    std::map<size_t, std::string> repl;
    std::vector<std::string> add;
    if (label != "-")
    {
        auto n = parse_u64(next());
        for (uint64_t i = 0; i < n; ++i) omit.insert(parse_u64(next()));
        n = parse_u64(next());
        for (uint64_t i = 0; i < n; ++i)
        {
            auto idx = parse_u64(next());
            repl[idx] = parse_hexstr(next());
        }
        n = parse_u64(next());
        for (uint64_t i = 0; i < n; ++i) add.push_back(parse_hexstr(next()));
    }
    // release whatever library is open, then build the files
    reset_all();
    auto dir = new_dir();
    if (B.v2) fs::create_directories(dir + "/Database2");
    parts cat;
    for (auto& l : B.labels)
    {
        rawconn c{file_of(dir, l)};
        std::string err;
        for (size_t i = 0; i < B.stmts.size(); ++i)
        {
            auto& s = B.stmts[i];
            if (s.label != l) continue;
            if (l == label && omit.count(i)) continue;
            const std::string& sql = (l == label && repl.count(i)) ? repl[i] : s.sql;
            if (!c.exec(sql, &err)) throw bad_command{"exec: " + err + " in " + sql.substr(0, 60)};
        }
        if (l == label)
            for (auto& sql : add)
                if (!c.exec(sql, &err)) throw bad_command{"exec: " + err + " in " + sql.substr(0, 60)};
        c.exec("INSERT INTO Information (schemaVersionMajor, schemaVersionMinor, schemaVersionPatch) VALUES (" +
               B.ver[0] + ", " + B.ver[1] + ", " + B.ver[2] + ")");
        dump_db(c.h, "main", l, cat);
    }
    strip_sql(cat);
    // the public path
    std::string load, pub = "na";
    {
        e::engine_schema loaded{};
        std::optional<dj::database> db;
        load = outcome([&] { db = e::load_database(dir, loaded); });
        if (load == "ok")
        {
            load = name_of(loaded);
            pub = outcome([&] { db->verify(); });
        }
    }
    // the validator of the base schema on the library's own kind of connection
    std::string in = outcome(
        [&]
        {
            auto db = B.v2 ? e::load_database2_sqlite_database(dir) : e::load_legacy_sqlite_database(dir);
            e::schema::make_schema_creator_validator(schema_of(B.schema))->verify(db);
        });
    std::error_code ec;
    fs::remove_all(dir, ec);
    return "load=" + load + " pub=" + pub + " int=" + in + " minus " + render(diff(B.cat, cat)) + " plus " +
           render(diff(cat, B.cat));
}
