// C17: rebuild an empty library from (mutated) DDL and run the real verify().
//
//   sv.base                         after `create <schema> disk`: remember the DDL statements of the
//                                   created library (sqlite_master in creation order), its version
//                                   triple and its catalog (sql text dropped).  Answers the statement
//                                   list:  n (<label> <type> <hexname> <hextbl> <hexsql>)*
//   sv.mut <label> <nomit> <idx>* <nrepl> (<idx> <hexsql>)* <nadd> <hexsql>*
//                                   rebuild every database file of the library from the remembered
//                                   statements, with the given edits applied to database <label>
//                                   (`-` = no edit), then
//                                     load=…  the public load_database() on the rebuilt directory
//                                     pub=…   database::verify() of what was loaded
//                                     int=…   make_schema_creator_validator(<base schema>)->verify()
//                                             on the library's own kind of connection
//                                     wrap=…  what the validator's own query wrappers (master_list, table_info,
//                                             index_list, index_info of schema_validate_utils.hpp) return for
//                                             every object of the rebuilt catalog, compared with the independent
//                                             reader: `same`, or `DIFF:<kind>:<hex name>` for the first difference
//                                             (the Lean model assumes the wrappers list everything that is there)
//                                   and the difference between the rebuilt catalog and the remembered
//                                   one, read by the independent reader of djv_schema.cpp:
//                                     minus <dump> plus <dump>
// The catalog read for C17 holds what verify() can look at: tables and views by name (sqlite_master),
// PRAGMA table_info of every table, PRAGMA index_list / index_info of every table; no DDL text, no
// triggers, no view columns (view bodies are outside the property).  A trigger of the base library
// that no longer compiles against the mutated tables is left out (reported as trigskip=<n>).
// The rebuilt files carry one Information row with the base version triple (best effort:
// a mutant whose Information table cannot take it has none).
#include <algorithm>
#include <filesystem>
#include <optional>
#include <set>
#include <typeinfo>

#include <sqlite3.h>
#include <sqlite_modern_cpp.h>

#include <djinterop/djinterop.hpp>
#include <djinterop/engine/engine.hpp>

#include "djinterop/engine/engine_library_dir_utils.hpp"
#include "djinterop/engine/schema/schema.hpp"
#include "djinterop/engine/schema/schema_validate_utils.hpp"

#include "djv.hpp"
#include "djv_state.hpp"

using namespace djv;
using namespace djv::lib;
namespace dj = djinterop;
namespace e = djinterop::engine;
namespace fs = std::filesystem;

namespace djv
{
namespace schema
{
using ostr = std::optional<std::string>;
using row = std::vector<ostr>;
struct parts
{
    std::vector<std::string> m, t, x;
};
std::vector<row> query(sqlite3* h, const std::string& sql);
std::string render(const parts& p);
}  // namespace schema
}  // namespace djv
using namespace djv::schema;

namespace
{
struct stmt
{
    std::string label, type, name, tbl, sql;
};
struct base_state
{
    bool set = false;
    bool v2 = false;
    std::string schema;
    std::vector<std::string> labels;
    std::vector<stmt> stmts;
    std::string ver[3];
    parts cat;
};
base_state B;

std::string hs(const ostr& s) { return hexstr(s ? *s : std::string()); }
std::string hx(const ostr& s) { return s ? hexstr(*s) : std::string("none"); }
std::string num(const ostr& s) { return s ? *s : std::string("0"); }
std::string sqlq(const std::string& s)
{
    std::string o = "'";
    for (char c : s)
    {
        if (c == '\'') o += "''";
        else o += c;
    }
    return o + "'";
}

// the structural catalog of sqlite schema `sname` of connection h (text form of djv_schema.cpp)
void dump_cat(sqlite3* h, const std::string& sname, const std::string& label, parts& p)
{
    auto master = query(h, "SELECT type, name, tbl_name FROM " + sname +
                               ".sqlite_master WHERE type IN ('table', 'view') ORDER BY type, name");
    for (auto& r : master)
    {
        p.m.push_back(label + " " + *r[0] + " " + hs(r[1]) + " " + hs(r[2]) + " none");
        if (*r[0] != "table") continue;
        {
            auto cols = query(h, "PRAGMA " + sname + ".table_info(" + sqlq(*r[1]) + ")");
            std::string s = label + " " + hs(r[1]) + " " + std::to_string(cols.size());
            for (auto& c : cols)
                s += " " + hs(c[1]) + " " + hs(c[2]) + " " + num(c[3]) + " " + hx(c[4]) + " " + num(c[5]);
            p.t.push_back(s);
        }
        {
            auto idx = query(h, "PRAGMA " + sname + ".index_list(" + sqlq(*r[1]) + ")");
            std::sort(idx.begin(), idx.end(), [](const row& a, const row& b) { return *a[1] < *b[1]; });
            std::string s = label + " " + hs(r[1]) + " " + std::to_string(idx.size());
            for (auto& i : idx)
            {
                auto ic = query(h, "PRAGMA " + sname + ".index_info(" + sqlq(*i[1]) + ")");
                s += " " + hs(i[1]) + " " + num(i[2]) + " " + hs(i[3]) + " " + num(i[4]) + " " +
                     std::to_string(ic.size());
                for (auto& c : ic) s += " " + num(c[0]) + " " + hx(c[2]);
            }
            p.x.push_back(s);
        }
    }
}

parts diff(const parts& a, const parts& b)  // entries of a that are not in b
{
    parts o;
    auto d = [](const std::vector<std::string>& x, const std::vector<std::string>& y, std::vector<std::string>& out)
    {
        std::multiset<std::string> ys(y.begin(), y.end());
        for (auto& s : x)
        {
            auto it = ys.find(s);
            if (it == ys.end()) out.push_back(s);
            else ys.erase(it);
        }
    };
    d(a.m, b.m, o.m);
    d(a.t, b.t, o.t);
    d(a.x, b.x, o.x);
    return o;
}

struct rawconn
{
    sqlite3* h = nullptr;
    explicit rawconn(const std::string& path)
    {
        if (sqlite3_open(path.c_str(), &h) != SQLITE_OK) throw bad_command{"open " + path};
    }
    ~rawconn() { sqlite3_close(h); }
    bool exec(const std::string& sql, std::string* err = nullptr)
    {
        char* e = nullptr;
        if (sqlite3_exec(h, sql.c_str(), nullptr, nullptr, &e) != SQLITE_OK)
        {
            if (err) *err = e ? e : "";
            sqlite3_free(e);
            return false;
        }
        return true;
    }
};

std::string file_of(const std::string& dir, const std::string& label)
{
    if (label == "main") return dir + "/Database2/m.db";
    return dir + (label == "music" ? "/m.db" : "/p.db");
}

// ---- the validator's own view of the catalog vs the independent reader's ----
namespace sv = djinterop::engine::schema;

std::vector<std::string> toks(const std::string& s)
{
    std::vector<std::string> o;
    std::istringstream in(s);
    std::string t;
    while (in >> t) o.push_back(t);
    return o;
}

// compare for one database file (label; sqlite schema name `sname` on connection db) ; "" = same
std::string compare_wrappers(sqlite::database& db, bool v2, const std::string& label, const parts& cat)
{
    auto nn = [](const std::string& t) { return t == "none" ? std::string("-") : t; };
    for (const char* ty : {"table", "view"})
    {
        std::set<std::string> mine, theirs;
        for (auto& m : cat.m)
        {
            auto t = toks(m);
            if (t[0] == label && t[1] == ty) mine.insert(t[2]);
        }
        if (v2)
        {
            sv::master_list l{db, ty};
            for (auto& e : l) theirs.insert(hexstr(e.item_name));
        }
        else
        {
            sv::master_list l{db, label, ty};
            for (auto& e : l) theirs.insert(hexstr(e.item_name));
        }
        for (auto& n : mine)
            if (!theirs.count(n)) return std::string("DIFF:master-") + ty + "-hidden:" + n;
        for (auto& n : theirs)
            if (!mine.count(n)) return std::string("DIFF:master-") + ty + "-invented:" + n;
    }
    for (auto& tl : cat.t)
    {
        auto t = toks(tl);
        if (t[0] != label) continue;
        auto name = parse_hexstr(t[1]);
        if (name.find('\'') != std::string::npos) continue;  // the wrappers splice the name into the PRAGMA text
        std::set<std::string> mine, theirs;
        size_t n = std::stoul(t[2]);
        for (size_t i = 0; i < n; ++i)
            mine.insert(t[3 + 5 * i] + " " + t[4 + 5 * i] + " " + t[5 + 5 * i] + " " + nn(t[6 + 5 * i]) + " " + t[7 + 5 * i]);
        try
        {
            auto add = [&](const sv::table_info_entry& e)
            {
                theirs.insert(hexstr(e.col_name) + " " + hexstr(e.col_type) + " " + std::to_string(e.nullable) + " " +
                              hexstr(e.default_value) + " " + std::to_string(e.part_of_pk));
            };
            if (v2)
            {
                sv::table_info ti{db, name};
                for (auto& e : ti) add(e);
            }
            else
            {
                sv::table_info ti{db, label, name};
                for (auto& e : ti) add(e);
            }
        }
        catch (const std::exception&)
        {
            continue;
        }
        if (mine != theirs) return "DIFF:table_info:" + t[1];
    }
    for (auto& xl : cat.x)
    {
        auto t = toks(xl);
        if (t[0] != label) continue;
        auto name = parse_hexstr(t[1]);
        if (name.find('\'') != std::string::npos) continue;
        std::set<std::string> mine, theirs;
        std::vector<std::pair<std::string, std::set<std::string>>> idxcols;
        size_t n = std::stoul(t[2]), k = 3;
        for (size_t i = 0; i < n; ++i)
        {
            mine.insert(t[k] + " " + t[k + 1] + " " + t[k + 2] + " " + t[k + 3]);
            size_t nc = std::stoul(t[k + 4]);
            std::set<std::string> cs;
            for (size_t c = 0; c < nc; ++c) cs.insert(t[k + 5 + 2 * c] + " " + nn(t[k + 6 + 2 * c]));
            idxcols.push_back({t[k], cs});
            k += 5 + 2 * nc;
        }
        try
        {
            auto add = [&](const sv::index_list_entry& e)
            {
                theirs.insert(hexstr(e.index_name) + " " + std::to_string(e.unique) + " " + hexstr(e.creation_method) + " " +
                              std::to_string(e.partial_index));
            };
            if (v2)
            {
                sv::index_list il{db, name};
                for (auto& e : il) add(e);
            }
            else
            {
                sv::index_list il{db, label, name};
                for (auto& e : il) add(e);
            }
        }
        catch (const std::exception&)
        {
            continue;
        }
        if (mine != theirs) return "DIFF:index_list:" + t[1];
        for (auto& ic : idxcols)
        {
            auto iname = parse_hexstr(ic.first);
            if (iname.find('\'') != std::string::npos) continue;
            std::set<std::string> got;
            try
            {
                auto add = [&](const sv::index_info_entry& e) { got.insert(std::to_string(e.ordinal) + " " + hexstr(e.col_name)); };
                if (v2)
                {
                    sv::index_info ii{db, iname};
                    for (auto& e : ii) add(e);
                }
                else
                {
                    sv::index_info ii{db, label, iname};
                    for (auto& e : ii) add(e);
                }
            }
            catch (const std::exception&)
            {
                continue;
            }
            if (got != ic.second) return "DIFF:index_info:" + ic.first;
        }
    }
    return "";
}

template <class F>
std::string outcome(F f)
{
    try
    {
        f();
        return "ok";
    }
    catch (const dj::database_inconsistency&)
    {
        return "inconsistency";
    }
    catch (const std::exception& ex)
    {
        return std::string("throw:") + typeid(ex).name();
    }
}
}  // namespace

DJV_CMD(sv_base, "sv.base")
{
    (void)DB();
    auto h = main_handle();
    B = base_state{};
    B.v2 = is_v2();
    B.schema = S.schema;
    B.labels = B.v2 ? std::vector<std::string>{"main"} : std::vector<std::string>{"music", "perfdata"};
    std::string out;
    for (auto& l : B.labels)
    {
        auto rows = query(h, "SELECT type, name, tbl_name, sql FROM " + l +
                                 ".sqlite_master WHERE sql IS NOT NULL AND name NOT LIKE 'sqlite_%' ORDER BY rowid");
        for (auto& r : rows)
        {
            B.stmts.push_back({l, *r[0], *r[1], *r[2], *r[3]});
            out += " " + l + " " + *r[0] + " " + hexstr(*r[1]) + " " + hexstr(*r[2]) + " " + hexstr(*r[3]);
        }
        dump_cat(h, l, l, B.cat);
    }
    auto v = query(h, std::string("SELECT schemaVersionMajor, schemaVersionMinor, schemaVersionPatch FROM ") +
                          B.labels[0] + ".Information");
    if (v.size() != 1) throw bad_command{"Information rows"};
    for (int i = 0; i < 3; ++i) B.ver[i] = v[0][i] ? *v[0][i] : "0";
    B.set = true;
    return std::to_string(B.stmts.size()) + out + " cat " + render(B.cat);
}

DJV_CMD(sv_mut, "sv.mut")
{
    if (!B.set) throw bad_command{"no base"};
    size_t k = 1;
    auto next = [&]() -> const std::string& { return a.at(k++); };
    std::string label = next();
    std::set<size_t> omit;
    std::map<size_t, std::string> repl;
    std::vector<std::string> add;
    if (label != "-")
    {
        auto n = parse_u64(next());
        for (uint64_t i = 0; i < n; ++i) omit.insert(parse_u64(next()));
        n = parse_u64(next());
        for (uint64_t i = 0; i < n; ++i)
        {
            auto idx = parse_u64(next());
            repl[idx] = parse_hexstr(next());
        }
        n = parse_u64(next());
        for (uint64_t i = 0; i < n; ++i) add.push_back(parse_hexstr(next()));
    }
    // release whatever library is open, then build the files
    reset_all();
    auto dir = new_dir();
    if (B.v2) fs::create_directories(dir + "/Database2");
    parts cat;
    int trigskip = 0;
    for (auto& l : B.labels)
    {
        rawconn c{file_of(dir, l)};
        std::string err;
        for (size_t i = 0; i < B.stmts.size(); ++i)
        {
            auto& s = B.stmts[i];
            if (s.label != l) continue;
            if (l == label && omit.count(i)) continue;
            const std::string& sql = (l == label && repl.count(i)) ? repl[i] : s.sql;
            if (!c.exec(sql, &err))
            {
                if (s.type == "trigger" && l == label)
                {
                    ++trigskip;
                    continue;
                }
                throw bad_command{"exec: " + err + " in " + sql.substr(0, 60)};
            }
        }
        if (l == label)
            for (auto& sql : add)
                if (!c.exec(sql, &err)) throw bad_command{"exec: " + err + " in " + sql.substr(0, 60)};
        c.exec("INSERT INTO Information (schemaVersionMajor, schemaVersionMinor, schemaVersionPatch) VALUES (" +
               B.ver[0] + ", " + B.ver[1] + ", " + B.ver[2] + ")");
        dump_cat(c.h, "main", l, cat);
    }
    // the public path
    std::string load, pub = "na";
    {
        e::engine_schema loaded{};
        std::optional<dj::database> db;
        load = outcome([&] { db = e::load_database(dir, loaded); });
        if (load == "ok")
        {
            load = name_of(loaded);
            pub = outcome([&] { db->verify(); });
            // verify() is an observer: asked again through the same handle it must give the same verdict (a verdict
            // remembered from — or wrongly recorded by — the first call would show here)
            for (int again = 0; again < 2; ++again)
            {
                auto pub2 = outcome([&] { db->verify(); });
                if (pub2 != pub)
                {
                    pub = "unstable:" + pub + "/" + pub2;
                    break;
                }
            }
        }
    }
    // the validator of the base schema on the library's own kind of connection
    std::string in = outcome(
        [&]
        {
            auto db = B.v2 ? e::load_database2_sqlite_database(dir) : e::load_legacy_sqlite_database(dir);
            e::schema::make_schema_creator_validator(schema_of(B.schema))->verify(db);
        });
    std::string wrap = "same";
    try
    {
        auto db = B.v2 ? e::load_database2_sqlite_database(dir) : e::load_legacy_sqlite_database(dir);
        for (auto& l : B.labels)
        {
            auto d = compare_wrappers(db, B.v2, l, cat);
            if (!d.empty())
            {
                wrap = d;
                break;
            }
        }
    }
    catch (const std::exception& ex)
    {
        wrap = std::string("ERR:") + typeid(ex).name();
    }
    std::error_code ec;
    fs::remove_all(dir, ec);
    return "load=" + load + " pub=" + pub + " int=" + in + " trigskip=" + std::to_string(trigskip) + " wrap=" + wrap + " minus " + render(diff(B.cat, cat)) + " plus " +
           render(diff(cat, B.cat));
}
