// Blob codec commands: the eleven Engine performance-data codecs and the two
// zlib driver loops, reached through the library's own objects.
#include <optional>
#include <stdexcept>

#include <zlib.h>

#include <djinterop/djinterop.hpp>
#include <djinterop/engine/engine.hpp>
#include <djinterop/engine/v2/beat_data_blob.hpp>
#include <djinterop/engine/v2/loops_blob.hpp>
#include <djinterop/engine/v2/overview_waveform_data_blob.hpp>
#include <djinterop/engine/v2/quick_cues_blob.hpp>
#include <djinterop/engine/v2/track_data_blob.hpp>

#include "djinterop/engine/encode_decode_utils.hpp"
#include "djinterop/engine/v1/engine_storage.hpp"
#include "djinterop/engine/v1/performance_data_format.hpp"

#include "djv.hpp"
#include "djv_values.hpp"

using namespace djv;
namespace ev2 = djinterop::engine::v2;
namespace ev1 = djinterop::engine::v1;

namespace djv
{
// Independent zlib framing helpers (do not use the library's loops).
std::vector<std::byte> own_compress(const std::vector<std::byte>& payload)
{
    uLongf n = compressBound(payload.size());
    std::vector<std::byte> out(4 + n);
    uint32_t len = (uint32_t)payload.size();
    out[0] = (std::byte)(len >> 24);
    out[1] = (std::byte)(len >> 16);
    out[2] = (std::byte)(len >> 8);
    out[3] = (std::byte)(len);
    static const Bytef dummy = 0;
    int r = compress2((Bytef*)out.data() + 4, &n, payload.empty() ? &dummy : (const Bytef*)payload.data(),
                      payload.size(), 6);
    if (r != Z_OK) throw bad_command{"compress2"};
    out.resize(4 + n);
    return out;
}

// returns false when the blob is not "4-byte BE length + one complete zlib
// stream inflating to exactly that length"
bool own_uncompress(const std::vector<std::byte>& blob, std::vector<std::byte>& payload)
{
    payload.clear();
    if (blob.empty()) return true;
    if (blob.size() < 4) return false;
    uint32_t len = ((uint32_t)blob[0] << 24) | ((uint32_t)blob[1] << 16) | ((uint32_t)blob[2] << 8) |
                   (uint32_t)blob[3];
    if (len == 0) return true;
    if (len > (1u << 30)) return false;
    payload.resize(len);
    uLongf n = len;
    int r = uncompress((Bytef*)payload.data(), &n, (const Bytef*)blob.data() + 4, blob.size() - 4);
    if (r != Z_OK || n != len) return false;
    return true;
}
}  // namespace djv

static std::string payload_and_blob(const std::vector<std::byte>& blob, bool compressed)
{
    if (!compressed) return hexbytes(blob) + " " + hexbytes(blob);
    std::vector<std::byte> payload;
    if (!own_uncompress(blob, payload)) return "UNFRAMED " + hexbytes(blob);
    return hexbytes(payload) + " " + hexbytes(blob);
}

// ---------------------------------------------------------------- encode
DJV_CMD(enc, "enc")
{
    cursor c{a, 2};
    const std::string& k = a.at(1);
    if (k == "v2.beat") { auto v = rd_v2_beat(c); c.done(); return payload_and_blob(v.to_blob(), true); }
    if (k == "v2.cues") { auto v = rd_v2_cues(c); c.done(); return payload_and_blob(v.to_blob(), true); }
    if (k == "v2.loops") { auto v = rd_v2_loops(c); c.done(); return payload_and_blob(v.to_blob(), false); }
    if (k == "v2.ovw") { auto v = rd_v2_ovw(c); c.done(); return payload_and_blob(v.to_blob(), true); }
    if (k == "v2.track") { auto v = rd_v2_track(c); c.done(); return payload_and_blob(v.to_blob(), true); }
    if (k == "v1.beat") { auto v = rd_v1_beat(c); c.done(); return payload_and_blob(v.encode(), true); }
    if (k == "v1.cues") { auto v = rd_v1_cues(c); c.done(); return payload_and_blob(v.encode(), true); }
    if (k == "v1.loops") { auto v = rd_v1_loops(c); c.done(); return payload_and_blob(v.encode(), false); }
    if (k == "v1.ovw") { auto v = rd_v1_ovw(c); c.done(); return payload_and_blob(v.encode(), true); }
    if (k == "v1.hires") { auto v = rd_v1_hires(c); c.done(); return payload_and_blob(v.encode(), true); }
    if (k == "v1.track") { auto v = rd_v1_track(c); c.done(); return payload_and_blob(v.encode(), true); }
    throw bad_command{"kind"};
}

// v1col <kind> <value...>: the single-column write path of the 1.x storage (the one behind every 1.x blob setter:
// encode, decode again, refuse if the value did not survive, write) followed by the single-column read, on a
// temporary 1.x library: "<value as given> | <value read back>".
template <class T>
static std::string v1col_run(const T& v, const char* column)
{
    auto st = ev1::engine_storage::create_temporary(djinterop::engine::engine_schema::schema_1_18_0_os);
    // the PerformanceData row of a track as create_track leaves it: eight empty cue and loop slots
    ev1::quick_cues_data q0;
    q0.hot_cues.resize(8);
    ev1::loops_data l0;
    l0.loops.resize(8);
    st->set_performance_data(1, 1, 0, ev1::track_data{}, ev1::high_res_waveform_data{}, ev1::overview_waveform_data{},
                             ev1::beat_data{}, q0, l0, 0, 0, 0);
    st->template set_performance_data_column<T>(1, column, v);
    auto r = st->template get_performance_data_column<T>(1, column);
    return wr(v) + " | " + wr(r);
}
DJV_CMD(v1col, "v1col")
{
    cursor c{a, 2};
    const std::string& k = a.at(1);
    if (k == "v1.beat") { auto v = rd_v1_beat(c); c.done(); return v1col_run(v, "beatData"); }
    if (k == "v1.cues") { auto v = rd_v1_cues(c); c.done(); return v1col_run(v, "quickCues"); }
    if (k == "v1.loops") { auto v = rd_v1_loops(c); c.done(); return v1col_run(v, "loops"); }
    if (k == "v1.ovw") { auto v = rd_v1_ovw(c); c.done(); return v1col_run(v, "overviewWaveFormData"); }
    if (k == "v1.hires") { auto v = rd_v1_hires(c); c.done(); return v1col_run(v, "highResolutionWaveFormData"); }
    if (k == "v1.track") { auto v = rd_v1_track(c); c.done(); return v1col_run(v, "trackData"); }
    throw bad_command{"kind"};
}

static std::string decode_blob(const std::string& k, const std::vector<std::byte>& blob)
{
    if (k == "v2.beat") return wr(ev2::beat_data_blob::from_blob(blob));
    if (k == "v2.cues") return wr(ev2::quick_cues_blob::from_blob(blob));
    if (k == "v2.loops") return wr(ev2::loops_blob::from_blob(blob));
    if (k == "v2.ovw") return wr(ev2::overview_waveform_data_blob::from_blob(blob));
    if (k == "v2.track") return wr(ev2::track_data_blob::from_blob(blob));
    if (k == "v1.beat") return wr(ev1::beat_data::decode(blob));
    if (k == "v1.cues") return wr(ev1::quick_cues_data::decode(blob));
    if (k == "v1.loops") return wr(ev1::loops_data::decode(blob));
    if (k == "v1.ovw") return wr(ev1::overview_waveform_data::decode(blob));
    if (k == "v1.hires") return wr(ev1::high_res_waveform_data::decode(blob));
    if (k == "v1.track") return wr(ev1::track_data::decode(blob));
    throw bad_command{"kind"};
}

static bool is_raw_kind(const std::string& k) { return k == "v2.loops" || k == "v1.loops"; }

// dec <kind> <payload-hex>: decode an *uncompressed payload* (the harness adds
// the framing with its own compressor, so the library's decompression loop is
// exercised on a well-formed stream).
DJV_CMD(dec, "dec")
{
    const std::string& k = a.at(1);
    auto payload = parse_hexbytes(a.at(2));
    // exact-size heap copy so that ASan sees reads past the end
    std::vector<std::byte> blob = is_raw_kind(k) ? payload : own_compress(payload);
    blob.shrink_to_fit();
    return decode_blob(k, blob);
}

// decz <kind> <blob-hex>: decode a raw stored blob, framing included.
DJV_CMD(decz, "decz")
{
    const std::string& k = a.at(1);
    auto blob = parse_hexbytes(a.at(2));
    blob.shrink_to_fit();
    return decode_blob(k, blob);
}

// redec <kind> <payload-hex>: decode then re-encode (C04): prints the payload
// of the re-encoded blob.
DJV_CMD(reenc, "reenc")
{
    const std::string& k = a.at(1);
    auto payload = parse_hexbytes(a.at(2));
    std::vector<std::byte> blob = is_raw_kind(k) ? payload : own_compress(payload);
    blob.shrink_to_fit();
    std::vector<std::byte> out;
    bool comp = true;
    if (k == "v2.beat") out = ev2::beat_data_blob::from_blob(blob).to_blob();
    else if (k == "v2.cues") out = ev2::quick_cues_blob::from_blob(blob).to_blob();
    else if (k == "v2.loops") { out = ev2::loops_blob::from_blob(blob).to_blob(); comp = false; }
    else if (k == "v2.ovw") out = ev2::overview_waveform_data_blob::from_blob(blob).to_blob();
    else if (k == "v2.track") out = ev2::track_data_blob::from_blob(blob).to_blob();
    else throw bad_command{"kind"};
    std::vector<std::byte> p;
    if (!comp) return hexbytes(out);
    if (!own_uncompress(out, p)) return "UNFRAMED";
    return hexbytes(p);
}

// reencz <kind> <blob-hex>: decode then re-encode a stored blob, framing
// included (the length prefix is the caller's, so it may disagree with what
// the stream inflates to): prints the payload of the re-encoded blob.
DJV_CMD(reencz, "reencz")
{
    const std::string& k = a.at(1);
    auto blob = parse_hexbytes(a.at(2));
    blob.shrink_to_fit();
    std::vector<std::byte> out;
    bool comp = true;
    if (k == "v2.beat") out = ev2::beat_data_blob::from_blob(blob).to_blob();
    else if (k == "v2.cues") out = ev2::quick_cues_blob::from_blob(blob).to_blob();
    else if (k == "v2.loops") { out = ev2::loops_blob::from_blob(blob).to_blob(); comp = false; }
    else if (k == "v2.ovw") out = ev2::overview_waveform_data_blob::from_blob(blob).to_blob();
    else if (k == "v2.track") out = ev2::track_data_blob::from_blob(blob).to_blob();
    else throw bad_command{"kind"};
    std::vector<std::byte> p;
    if (!comp) return hexbytes(out);
    if (!own_uncompress(out, p)) return "UNFRAMED";
    return hexbytes(p);
}

// unz <blob-hex>: the library's decompression loop.
DJV_CMD(unz, "unz")
{
    auto blob = parse_hexbytes(a.at(1));
    blob.shrink_to_fit();
    auto out = djinterop::engine::zlib_uncompress(blob);
    return hexbytes(out);
}

// z <payload-hex>: the library's compression loop; prints the framed blob and
// whether an independent inflate recovers the payload.
DJV_CMD(z, "z")
{
    auto payload = parse_hexbytes(a.at(1));
    payload.shrink_to_fit();
    auto out = djinterop::engine::zlib_compress(payload);
    std::vector<std::byte> p;
    bool ok = own_uncompress(out, p) && p == payload;
    return std::string(ok ? "framed " : "UNFRAMED ") + hexbytes(out);
}

// ztrace <payload-hex>: the library's compression loop with every deflate() call
// recorded by the link-time wrapper: verdict of an independent inflate, blob
// length, and per call flush:avail_in:consumed:produced:ret.
DJV_CMD(ztrace, "ztrace")
{
    auto payload = parse_hexbytes(a.at(1));
    payload.shrink_to_fit();
    g_wrap.dcalls.clear();
    g_wrap.dtrace = true;
    std::vector<std::byte> out;
    try
    {
        out = djinterop::engine::zlib_compress(payload);
    }
    catch (...)
    {
        g_wrap.dtrace = false;
        throw;
    }
    g_wrap.dtrace = false;
    std::vector<std::byte> p;
    bool ok = own_uncompress(out, p) && p == payload;
    std::string r = std::string(ok ? "framed" : "UNFRAMED") + " len=" + std::to_string(out.size()) +
                    " calls=" + std::to_string(g_wrap.dcalls.size());
    for (auto& c : g_wrap.dcalls)
        r += " " + std::to_string(c.flush) + ":" + std::to_string(c.in_before) + ":" + std::to_string(c.consumed) +
             ":" + std::to_string(c.produced) + ":" + std::to_string(c.ret);
    return r;
}

// ownz <payload-hex>: frame a payload with the harness's own compressor.
DJV_CMD(ownz, "ownz")
{
    auto payload = parse_hexbytes(a.at(1));
    return hexbytes(own_compress(payload));
}
