// Table-API commands (property C18): the schema-2.x low-level tables
// (track_table, playlist_table, playlist_entity_table, information_table)
// reached through djinterop::engine::v2::engine_library, with canonical text
// I/O of every row field, every per-column getter / setter, and raw dumps taken
// through the C API on the library's own connection (no library code on the
// read path except the blob payload decoders, which have their own property).
//
//   tt.create <schema>           new in-memory 2.x library (own state, not djv::lib::S.db)
//   tt.uuid <hex>                plant Information.uuid (read by the fix-origin triggers)
//   tt.clock <unix-seconds>      what strftime('%s') answers from now on (fake default VFS clock)
//   tt.add <row> | tt.get <id> | tt.update <row> | tt.remove <id> | tt.exists <id> | tt.ids | tt.find <path>
//   tt.getc <field> <id> | tt.setc <field> <id> <value>
//   tt.raw
//   tpl.add <row> | tpl.get <id> | tpl.update <row> | tpl.remove <id> | tpl.exists <id> | tpl.ids | tpl.raw
//   tpe.add <row> <throw_if_duplicate> | tpe.get <list> <track> | tpe.remove <list> <entity> | tpe.clear <list> | tpe.raw
//   tpe.get3 <list> <track> <uuid hex> | tpe.list <list> | tpe.tracks <list>
//   tt.sql <hex sql>             raw SQL through the C API on the library's connection (probe planting)
//   inf.get | inf.setcpi <v> | inf.raw
#include <chrono>
#include <cstring>
#include <optional>
#include <string>
#include <type_traits>
#include <vector>

#include <sqlite3.h>

#include <djinterop/djinterop.hpp>
#include <djinterop/engine/engine.hpp>
#include <djinterop/engine/v2/engine_library.hpp>

#include "djv.hpp"
#include "djv_state.hpp"
#include "djv_values.hpp"

using namespace djv;
namespace ev2 = djinterop::engine::v2;
using tp_t = std::chrono::system_clock::time_point;

namespace
{
std::optional<ev2::engine_library> g_lib;

ev2::engine_library& LIB()
{
    if (!g_lib) throw bad_command{"no table-api library"};
    return *g_lib;
}

// ---------------------------------------------------------------- fake clock
sqlite3_vfs g_vfs;
bool g_vfs_installed = false;
sqlite3_int64 g_unix_seconds = 1700000000;

int fake_time64(sqlite3_vfs*, sqlite3_int64* out)
{
    *out = g_unix_seconds * 1000 + 210866760000000LL;
    return SQLITE_OK;
}
int fake_time(sqlite3_vfs*, double* out)
{
    *out = (double)(g_unix_seconds * 1000 + 210866760000000LL) / 86400000.0;
    return SQLITE_OK;
}
void install_clock()
{
    if (g_vfs_installed) return;
    sqlite3_vfs* orig = sqlite3_vfs_find(nullptr);
    if (!orig) throw bad_command{"no default vfs"};
    g_vfs = *orig;
    g_vfs.zName = "djvclock";
    g_vfs.pNext = nullptr;
    g_vfs.xCurrentTime = fake_time;
    if (g_vfs.iVersion >= 2) g_vfs.xCurrentTimeInt64 = fake_time64;
    if (sqlite3_vfs_register(&g_vfs, 1) != SQLITE_OK) throw bad_command{"vfs register"};
    g_vfs_installed = true;
}

// ---------------------------------------------------------------- field text
// One overload pair per C++ field type; the field's declared type picks it.
std::string wrv(int64_t v) { return std::to_string((long long)v); }
std::string wrv(const std::optional<int64_t>& v) { return v ? std::to_string((long long)*v) : "none"; }
std::string wrv(const std::optional<int32_t>& v) { return v ? std::to_string((long long)*v) : "none"; }
std::string wrv(const std::string& v) { return hexstr(v); }
std::string wrv(const std::optional<std::string>& v) { return v ? "s" + hexstr(*v) : "none"; }
std::string wrv(const std::optional<double>& v) { return v ? fd(*v) : "none"; }
std::string wrv(bool v) { return v ? "1" : "0"; }
std::string wrv(const tp_t& t)
{
    return std::to_string(
        (long long)std::chrono::duration_cast<std::chrono::nanoseconds>(t.time_since_epoch()).count());
}
std::string wrv(const std::optional<tp_t>& t) { return t ? wrv(*t) : "none"; }
std::string wrv(const ev2::track_data_blob& v) { return wr(v); }
std::string wrv(const ev2::overview_waveform_data_blob& v) { return wr(v); }
std::string wrv(const ev2::beat_data_blob& v) { return wr(v); }
std::string wrv(const ev2::quick_cues_blob& v) { return wr(v); }
std::string wrv(const ev2::loops_blob& v) { return wr(v); }

tp_t mk_tp(int64_t ns)
{
    return tp_t{std::chrono::duration_cast<std::chrono::system_clock::duration>(std::chrono::nanoseconds{ns})};
}
void rdv(cursor& c, int64_t& v) { v = c.i64(); }
void rdv(cursor& c, std::optional<int64_t>& v) { v = c.opti64(); }
void rdv(cursor& c, std::optional<int32_t>& v)
{
    if (c.peek_is("none")) { c.next(); v = std::nullopt; }
    else v = c.i32();
}
void rdv(cursor& c, std::string& v) { v = c.str(); }
void rdv(cursor& c, std::optional<std::string>& v)
{
    auto& t = c.next();
    if (t == "none") { v = std::nullopt; return; }
    if (t.empty() || t[0] != 's') throw bad_command{"opt string"};
    v = parse_hexstr(t.substr(1));
}
void rdv(cursor& c, std::optional<double>& v) { v = c.optf(); }
void rdv(cursor& c, bool& v)
{
    auto& t = c.next();
    if (t == "1") v = true;
    else if (t == "0") v = false;
    else throw bad_command{"bool"};
}
void rdv(cursor& c, tp_t& v) { v = mk_tp(c.i64()); }
void rdv(cursor& c, std::optional<tp_t>& v)
{
    auto x = c.opti64();
    v = x ? std::make_optional(mk_tp(*x)) : std::nullopt;
}
void rdv(cursor& c, ev2::track_data_blob& v) { v = rd_v2_track(c); }
void rdv(cursor& c, ev2::overview_waveform_data_blob& v) { v = rd_v2_ovw(c); }
void rdv(cursor& c, ev2::beat_data_blob& v) { v = rd_v2_beat(c); }
void rdv(cursor& c, ev2::quick_cues_blob& v) { v = rd_v2_cues(c); }
void rdv(cursor& c, ev2::loops_blob& v) { v = rd_v2_loops(c); }

// Every member of track_row after `id`, in declaration order.
#define DJV_TRACK_FIELDS(X)                                                                          \
    X(play_order) X(length) X(bpm) X(year) X(path) X(filename) X(bitrate) X(bpm_analyzed)            \
    X(album_art_id) X(file_bytes) X(title) X(artist) X(album) X(genre) X(comment) X(label)           \
    X(composer) X(remixer) X(key) X(rating) X(album_art) X(time_last_played) X(is_played)            \
    X(file_type) X(is_analyzed) X(date_created) X(date_added) X(is_available)                        \
    X(is_metadata_of_packed_track_changed) X(is_performance_data_of_packed_track_changed)            \
    X(played_indicator) X(is_metadata_imported) X(pdb_import_key) X(streaming_source) X(uri)         \
    X(is_beat_grid_locked) X(origin_database_uuid) X(origin_track_id) X(track_data)                  \
    X(overview_waveform_data) X(beat_data) X(quick_cues) X(loops) X(third_party_source_id)           \
    X(streaming_flags) X(explicit_lyrics) X(active_on_load_loops) X(last_edit_time)

ev2::track_row rd_track_row(cursor& c)
{
    ev2::track_row r{};
    rdv(c, r.id);
#define X(f) rdv(c, r.f);
    DJV_TRACK_FIELDS(X)
#undef X
    return r;
}
std::string wr_track_row(const ev2::track_row& r)
{
    std::string s = wrv(r.id);
#define X(f) s += " " + wrv(r.f);
    DJV_TRACK_FIELDS(X)
#undef X
    return s;
}

template <class R>
std::string call_get(ev2::track_table& t, R (ev2::track_table::*m)(int64_t), int64_t id)
{
    return wrv((t.*m)(id));
}
template <class A>
void call_set(ev2::track_table& t, void (ev2::track_table::*m)(int64_t, A), int64_t id, cursor& c)
{
    std::decay_t<A> v{};
    rdv(c, v);
    c.done();
    (t.*m)(id, v);
}

ev2::playlist_row rd_playlist_row(cursor& c)
{
    ev2::playlist_row r{};
    rdv(c, r.id);
    rdv(c, r.title);
    rdv(c, r.parent_list_id);
    rdv(c, r.is_persisted);
    rdv(c, r.next_list_id);
    rdv(c, r.last_edit_time);
    rdv(c, r.is_explicitly_exported);
    return r;
}
std::string wr_playlist_row(const ev2::playlist_row& r)
{
    return wrv(r.id) + " " + wrv(r.title) + " " + wrv(r.parent_list_id) + " " + wrv(r.is_persisted) + " " +
           wrv(r.next_list_id) + " " + wrv(r.last_edit_time) + " " + wrv(r.is_explicitly_exported);
}
ev2::playlist_entity_row rd_entity_row(cursor& c)
{
    ev2::playlist_entity_row r{};
    rdv(c, r.id);
    rdv(c, r.list_id);
    rdv(c, r.track_id);
    rdv(c, r.database_uuid);
    rdv(c, r.next_entity_id);
    rdv(c, r.membership_reference);
    return r;
}
std::string wr_entity_row(const ev2::playlist_entity_row& r)
{
    return wrv(r.id) + " " + wrv(r.list_id) + " " + wrv(r.track_id) + " " + wrv(r.database_uuid) + " " +
           wrv(r.next_entity_id) + " " + wrv(r.membership_reference);
}

// ---------------------------------------------------------------- raw dumps
std::string decode_blob_column(const std::string& col, const std::vector<std::byte>& b)
{
    try
    {
        if (col == "trackData") return "[" + wr(ev2::track_data_blob::from_blob(b)) + "]";
        if (col == "overviewWaveFormData") return "[" + wr(ev2::overview_waveform_data_blob::from_blob(b)) + "]";
        if (col == "beatData") return "[" + wr(ev2::beat_data_blob::from_blob(b)) + "]";
        if (col == "quickCues") return "[" + wr(ev2::quick_cues_blob::from_blob(b)) + "]";
        if (col == "loops") return "[" + wr(ev2::loops_blob::from_blob(b)) + "]";
    }
    catch (const std::exception&)
    {
        return "!" + hexbytes(b);
    }
    return hexbytes(b);
}

// One line: rows in rowid order, every column as name=value.
std::string raw_table(const std::string& table)
{
    sqlite3* h = lib::main_handle();
    sqlite3_stmt* st = nullptr;
    std::string sql = "SELECT * FROM " + table + " ORDER BY id";
    if (sqlite3_prepare_v2(h, sql.c_str(), -1, &st, nullptr) != SQLITE_OK)
        return std::string("ERR(") + sqlite3_errmsg(h) + ")";
    std::string out;
    int rc;
    while ((rc = sqlite3_step(st)) == SQLITE_ROW)
    {
        out += out.empty() ? "{" : " {";
        int n = sqlite3_column_count(st);
        for (int i = 0; i < n; ++i)
        {
            std::string name = sqlite3_column_name(st, i);
            out += (i ? " " : "") + name + "=";
            switch (sqlite3_column_type(st, i))
            {
                case SQLITE_NULL: out += "null"; break;
                case SQLITE_INTEGER: out += "i" + std::to_string((long long)sqlite3_column_int64(st, i)); break;
                case SQLITE_FLOAT: out += "f" + fd(sqlite3_column_double(st, i)); break;
                case SQLITE_TEXT:
                {
                    std::string s((const char*)sqlite3_column_text(st, i), sqlite3_column_bytes(st, i));
                    out += "s" + hexstr(s);
                    break;
                }
                case SQLITE_BLOB:
                {
                    const auto* p = (const std::byte*)sqlite3_column_blob(st, i);
                    std::vector<std::byte> b(p, p + sqlite3_column_bytes(st, i));
                    out += "b" + decode_blob_column(name, b);
                    break;
                }
            }
        }
        out += "}";
    }
    sqlite3_finalize(st);
    if (rc != SQLITE_DONE) out += " ERR";
    std::string seq = lib::raw_query(h, "SELECT seq FROM sqlite_sequence WHERE name = '" + table + "'");
    return "seq=" + seq + (out.empty() ? "" : " " + out);
}

std::string id_list(std::vector<int64_t> v, bool sort)
{
    return lib::ids(std::move(v), sort);
}
}  // namespace

// ------------------------------------------------------------------ lifecycle
DJV_CMD(tt_create, "tt.create")
{
    auto sch = lib::schema_of(a.at(1));
    g_lib.reset();
    lib::reset_all();
    install_clock();
    g_lib = ev2::engine_library::create_temporary(sch);
    lib::S.schema = a.at(1);
    return "";
}
DJV_CMD(tt_uuid, "tt.uuid")
{
    auto u = parse_hexstr(a.at(1));
    sqlite3_stmt* st = nullptr;
    sqlite3* h = lib::main_handle();
    if (sqlite3_prepare_v2(h, "UPDATE Information SET uuid = ?", -1, &st, nullptr) != SQLITE_OK)
        throw bad_command{"prepare"};
    sqlite3_bind_text(st, 1, u.data(), (int)u.size(), SQLITE_TRANSIENT);
    int rc = sqlite3_step(st);
    sqlite3_finalize(st);
    if (rc != SQLITE_DONE) throw bad_command{"uuid update"};
    return "";
}
DJV_CMD(tt_clock, "tt.clock")
{
    g_unix_seconds = parse_i64(a.at(1));
    return "";
}

// ---------------------------------------------------------------------- Track
DJV_CMD(tt_add, "tt.add")
{
    cursor c{a, 1};
    auto r = rd_track_row(c);
    c.done();
    return wrv(LIB().track().add(r));
}
DJV_CMD(tt_get, "tt.get")
{
    auto r = LIB().track().get(parse_i64(a.at(1)));
    return r ? wr_track_row(*r) : "none";
}
DJV_CMD(tt_update, "tt.update")
{
    cursor c{a, 1};
    auto r = rd_track_row(c);
    c.done();
    LIB().track().update(r);
    return "";
}
DJV_CMD(tt_remove, "tt.remove")
{
    LIB().track().remove(parse_i64(a.at(1)));
    return "";
}
DJV_CMD(tt_exists, "tt.exists")
{
    return LIB().track().exists(parse_i64(a.at(1))) ? "1" : "0";
}
DJV_CMD(tt_ids, "tt.ids")
{
    return id_list(LIB().track().all_ids(), true);
}
DJV_CMD(tt_find, "tt.find")
{
    return wrv(LIB().track().find_id_by_path(parse_hexstr(a.at(1))));
}
DJV_CMD(tt_getc, "tt.getc")
{
    auto t = LIB().track();
    const std::string& f = a.at(1);
    int64_t id = parse_i64(a.at(2));
    if (a.size() != 3) throw bad_command{"extra tokens"};
#define X(n) \
    if (f == #n) return call_get(t, &ev2::track_table::get_##n, id);
    DJV_TRACK_FIELDS(X)
#undef X
    throw bad_command{"field " + f};
}
DJV_CMD(tt_setc, "tt.setc")
{
    auto t = LIB().track();
    const std::string& f = a.at(1);
    int64_t id = parse_i64(a.at(2));
    cursor c{a, 3};
#define X(n)                                            \
    if (f == #n)                                        \
    {                                                   \
        call_set(t, &ev2::track_table::set_##n, id, c); \
        return "";                                      \
    }
    DJV_TRACK_FIELDS(X)
#undef X
    throw bad_command{"field " + f};
}
DJV_CMD(tt_raw, "tt.raw") { return raw_table("Track"); }

// ------------------------------------------------------------------- Playlist
DJV_CMD(pl_add, "tpl.add")
{
    cursor c{a, 1};
    auto r = rd_playlist_row(c);
    c.done();
    return wrv(LIB().playlist().add(r));
}
DJV_CMD(pl_get, "tpl.get")
{
    auto r = LIB().playlist().get(parse_i64(a.at(1)));
    return r ? wr_playlist_row(*r) : "none";
}
DJV_CMD(pl_update, "tpl.update")
{
    cursor c{a, 1};
    auto r = rd_playlist_row(c);
    c.done();
    LIB().playlist().update(r);
    return "";
}
DJV_CMD(pl_remove, "tpl.remove")
{
    LIB().playlist().remove(parse_i64(a.at(1)));
    return "";
}
DJV_CMD(pl_exists, "tpl.exists")
{
    return LIB().playlist().exists(parse_i64(a.at(1))) ? "1" : "0";
}
DJV_CMD(pl_ids, "tpl.ids")
{
    return id_list(LIB().playlist().all_ids(), true);
}
DJV_CMD(pl_raw, "tpl.raw") { return raw_table("Playlist"); }

// ------------------------------------------------------------- PlaylistEntity
DJV_CMD(pe_add, "tpe.add")
{
    cursor c{a, 1};
    auto r = rd_entity_row(c);
    bool dup = false;
    rdv(c, dup);
    c.done();
    return wrv(LIB().playlist_entity().add_back(r, dup));
}
DJV_CMD(pe_get, "tpe.get")
{
    auto r = LIB().playlist_entity().get(parse_i64(a.at(1)), parse_i64(a.at(2)));
    return r ? wr_entity_row(*r) : "none";
}
DJV_CMD(pe_remove, "tpe.remove")
{
    LIB().playlist_entity().remove(parse_i64(a.at(1)), parse_i64(a.at(2)));
    return "";
}
DJV_CMD(pe_clear, "tpe.clear")
{
    LIB().playlist_entity().clear(parse_i64(a.at(1)));
    return "";
}
DJV_CMD(pe_raw, "tpe.raw") { return raw_table("PlaylistEntity"); }
// get(list, track, database uuid)
DJV_CMD(pe_get3, "tpe.get3")
{
    auto r = LIB().playlist_entity().get(parse_i64(a.at(1)), parse_i64(a.at(2)), parse_hexstr(a.at(3)));
    return r ? wr_entity_row(*r) : "none";
}
// get_for_list: the rows in list order, separated by " | "
DJV_CMD(pe_list, "tpe.list")
{
    auto rows = LIB().playlist_entity().get_for_list(parse_i64(a.at(1)));
    std::string out = "[";
    bool first = true;
    for (auto& r : rows)
    {
        out += (first ? "" : " | ") + wr_entity_row(r);
        first = false;
    }
    return out + "]";
}
DJV_CMD(pe_tracks, "tpe.tracks")
{
    return id_list(LIB().playlist_entity().track_ids(parse_i64(a.at(1))), false);
}
// Arbitrary SQL on the library's own connection through the C API (no library code): used by
// the binding cross-check to plant raw column values.  <hex of the UTF-8 SQL text>
DJV_CMD(tt_sql, "tt.sql")
{
    auto sql = parse_hexstr(a.at(1));
    char* err = nullptr;
    int rc = sqlite3_exec(lib::main_handle(), sql.c_str(), nullptr, nullptr, &err);
    if (rc != SQLITE_OK)
    {
        std::string m = err ? err : "?";
        sqlite3_free(err);
        throw bad_command{"sql: " + m};
    }
    return "";
}

// ---------------------------------------------------------------- Information
DJV_CMD(inf_get, "inf.get")
{
    auto r = LIB().information().get();
    return wrv(r.id) + " " + wrv(r.uuid) + " " + wrv(r.schema_version_major) + " " +
           wrv(r.schema_version_minor) + " " + wrv(r.schema_version_patch) + " " +
           wrv(r.current_played_indicator) + " " + wrv(r.last_rekord_box_library_import_read_counter);
}
DJV_CMD(inf_setcpi, "inf.setcpi")
{
    LIB().information().update_current_played_indicator(parse_i64(a.at(1)));
    return "";
}
DJV_CMD(inf_raw, "inf.raw") { return raw_table("Information"); }
