// Pure functions: waveform extents (C19) and beat-grid normalisation (C20).
#include <djinterop/djinterop.hpp>
#include <djinterop/engine/engine.hpp>

#include "djv.hpp"
#include "djv_values.hpp"

using namespace djv;
namespace e = djinterop::engine;

// wf.hi <sample_count:u64> <rate:hex64>  ->  <size> <spe:hex64>
DJV_CMD(wf_hi, "wf.hi")
{
    auto n = parse_u64(a.at(1));
    auto r = bitsd(parse_hex64(a.at(2)));
    auto x = e::calculate_high_resolution_waveform_extents(n, r);
    return std::to_string(x.size) + " " + fd(x.samples_per_entry);
}

DJV_CMD(wf_ov, "wf.ov")
{
    auto n = parse_u64(a.at(1));
    auto r = bitsd(parse_hex64(a.at(2)));
    auto x = e::calculate_overview_waveform_extents(n, r);
    return std::to_string(x.size) + " " + fd(x.samples_per_entry);
}

// bg.norm <sample_count:i64> <n> {<index:i32> <offset:hex64>}*n  ->  <n'> {...}
DJV_CMD(bg_norm, "bg.norm")
{
    cursor c{a, 1};
    auto sc = c.i64();
    auto g = rd_grid(c);
    c.done();
    auto out = e::normalize_beatgrid(std::move(g), sc);
    return wr_grid(out);
}

// ---------------------------------------------------------------- C13: planted directories
// plant2 <presence> <tables> <maj> <min> <pat> <numeric:0|1>  ->  load_database outcome
//   presence: letters of  X (the directory itself does not exist)  L (<dir>/m.db)
//             P (<dir>/p.db)  D (<dir>/Database2/m.db)  - (nothing)
//             E (<dir>/Database2 exists as an empty directory; the Model has no such bit: it must not matter)
//   tables:   number of sqlite_master entries named 'Information' in every planted m.db:
//             0 = no Information table, 1 = the table, 2 = the table and a trigger of that name
//   maj/min/pat: any 64-bit integers, stored in the Information row by a plain sqlite3 connection
#include <filesystem>
#include <sqlite3.h>

#include "djv_state.hpp"

DJV_CMD(plant2, "plant2")
{
    namespace fs = std::filesystem;
    namespace e = djinterop::engine;
    const std::string& pres = a.at(1);
    auto tables = parse_i64(a.at(2));
    auto maj = parse_i64(a.at(3)), mi = parse_i64(a.at(4)), pat = parse_i64(a.at(5));
    bool numeric = a.at(6) == "1";
    djv::lib::S.tracks.clear();
    djv::lib::S.crates.clear();
    djv::lib::S.db.reset();
    g_wrap.handles.clear();
    auto dir = djv::lib::new_dir();
    auto mk = [&](const std::string& path)
    {
        sqlite3* h = nullptr;
        if (sqlite3_open(path.c_str(), &h) != SQLITE_OK) throw bad_command{"open"};
        std::string sql =
            "CREATE TABLE Track (id INTEGER PRIMARY KEY, isExternalTrack " +
            std::string(numeric ? "NUMERIC" : "INTEGER") + ");";
        if (tables >= 1)
            sql +=
                "CREATE TABLE Information (id INTEGER PRIMARY KEY, uuid TEXT, schemaVersionMajor INTEGER, "
                "schemaVersionMinor INTEGER, schemaVersionPatch INTEGER, currentPlayedIndiciator INTEGER, "
                "lastRekordBoxLibraryImportReadCounter INTEGER);"
                "INSERT INTO Information VALUES (1, 'u', " +
                std::to_string(maj) + ", " + std::to_string(mi) + ", " + std::to_string(pat) + ", 0, 0);";
        if (tables >= 2)
            sql += "CREATE TRIGGER Information AFTER INSERT ON Track BEGIN SELECT 1; END;";
        char* err = nullptr;
        int rc = sqlite3_exec(h, sql.c_str(), nullptr, nullptr, &err);
        sqlite3_close(h);
        if (rc != SQLITE_OK) throw bad_command{"exec"};
    };
    if (pres.find('L') != std::string::npos) mk(dir + "/m.db");
    if (pres.find('P') != std::string::npos)
    {
        sqlite3* h = nullptr;
        if (sqlite3_open((dir + "/p.db").c_str(), &h) != SQLITE_OK) throw bad_command{"open"};
        sqlite3_exec(h, "CREATE TABLE PerformanceData (id INTEGER PRIMARY KEY);", nullptr, nullptr, nullptr);
        sqlite3_close(h);
    }
    if (pres.find('D') != std::string::npos)
    {
        fs::create_directories(dir + "/Database2");
        mk(dir + "/Database2/m.db");
    }
    // E: an EMPTY Database2 directory (no m.db in it) — not a library of either layout; what is beside it decides
    if (pres.find('E') != std::string::npos && pres.find('D') == std::string::npos) fs::create_directories(dir + "/Database2");
    if (pres.find('X') != std::string::npos) dir += "/absent";
    e::engine_schema loaded{};
    auto db = e::load_database(dir, loaded);
    return djv::lib::name_of(loaded);
}
