// Pure functions: waveform extents (C19) and beat-grid normalisation (C20).
#include <djinterop/djinterop.hpp>
#include <djinterop/engine/engine.hpp>

#include "djv.hpp"
#include "djv_values.hpp"

using namespace djv;
namespace e = djinterop::engine;

// wf.hi <sample_count:u64> <rate:hex64>  ->  <size> <spe:hex64>
DJV_CMD(wf_hi, "wf.hi")
{
    auto n = parse_u64(a.at(1));
    auto r = bitsd(parse_hex64(a.at(2)));
    auto x = e::calculate_high_resolution_waveform_extents(n, r);
    return std::to_string(x.size) + " " + fd(x.samples_per_entry);
}

DJV_CMD(wf_ov, "wf.ov")
{
    auto n = parse_u64(a.at(1));
    auto r = bitsd(parse_hex64(a.at(2)));
    auto x = e::calculate_overview_waveform_extents(n, r);
    return std::to_string(x.size) + " " + fd(x.samples_per_entry);
}

// bg.norm <sample_count:i64> <n> {<index:i32> <offset:hex64>}*n  ->  <n'> {...}
DJV_CMD(bg_norm, "bg.norm")
{
    cursor c{a, 1};
    auto sc = c.i64();
    auto g = rd_grid(c);
    c.done();
    auto out = e::normalize_beatgrid(std::move(g), sc);
    return wr_grid(out);
}
