// Link-time interposition (-Wl,--wrap=...) of the SQLite and zlib entry points
// the library calls.  No source hooks in /repo are needed.
#include <cctype>
#include <cstdio>
#include <cstdlib>
#include <cstring>
#include <string>

#include <sqlite3.h>
#include <zlib.h>

#include "djv.hpp"

extern "C" void* __asan_region_is_poisoned(void* beg, size_t size) __attribute__((weak));

namespace djv
{
wrap_state g_wrap;

static std::string first_word(const char* sql)
{
    std::string w;
    if (!sql) return w;
    while (*sql && isspace((unsigned char)*sql)) ++sql;
    while (*sql && (isalpha((unsigned char)*sql))) w.push_back((char)toupper((unsigned char)*sql++));
    return w;
}

// kind of a statement for the transaction-shape monitor
const char* stmt_kind(sqlite3_stmt* st)
{
    const char* sql = sqlite3_sql(st);
    auto w = first_word(sql);
    if (w == "BEGIN") return "begin";
    if (w == "COMMIT" || w == "END") return "commit";
    if (w == "ROLLBACK") return "rollback";
    if (w == "SAVEPOINT" || w == "RELEASE") return "savepoint";
    if (w == "PRAGMA") return sqlite3_stmt_readonly(st) ? "read" : "write";
    return sqlite3_stmt_readonly(st) ? "read" : "write";
}
}  // namespace djv

extern "C" {
int __real_sqlite3_step(sqlite3_stmt*);
int __real_sqlite3_open_v2(const char*, sqlite3**, int, const char*);
int __real_sqlite3_prepare_v2(sqlite3*, const char*, int, sqlite3_stmt**, const char**);
int __real_inflate(z_streamp, int);
int __real_deflate(z_streamp, int);

int __wrap_sqlite3_open_v2(const char* fn, sqlite3** pp, int flags, const char* vfs)
{
    int r = __real_sqlite3_open_v2(fn, pp, flags, vfs);
    if (r == SQLITE_OK && pp && *pp) djv::g_wrap.handles.push_back((void*)*pp);
    return r;
}

int __wrap_sqlite3_prepare_v2(sqlite3* db, const char* sql, int n, sqlite3_stmt** st, const char** tail)
{
    djv::g_wrap.prepares++;
    return __real_sqlite3_prepare_v2(db, sql, n, st, tail);
}

int __wrap_sqlite3_step(sqlite3_stmt* st)
{
    using namespace djv;
    g_wrap.steps++;
    const char* kind = stmt_kind(st);
    bool counted = strcmp(kind, "read") != 0 && strcmp(kind, "rollback") != 0;
    // A statement is counted once (at its first step): sqlite3_stmt_busy is
    // false before the first step after a reset.
    bool first = !sqlite3_stmt_busy(st);
    if (first && g_wrap.trace)
    {
        g_wrap.trace_lines.push_back(kind);
    }
    if (first && counted)
    {
        g_wrap.write_steps++;
        if (g_wrap.fail_at_write >= 0)
        {
            if (g_wrap.writes_seen == g_wrap.fail_at_write)
            {
                g_wrap.writes_seen++;
                g_wrap.fault_fired = true;
                g_wrap.fail_at_write = -1;
                if (g_wrap.trace) g_wrap.trace_lines.back() += "!";
                return SQLITE_IOERR;
            }
            g_wrap.writes_seen++;
        }
    }
    return __real_sqlite3_step(st);
}

static void check_region(const void* p, size_t n)
{
    if (n == 0 || !p) return;
    if (&__asan_region_is_poisoned && __asan_region_is_poisoned(const_cast<void*>(p), n) != nullptr)
        djv::g_wrap.bad_region++;
}

int __wrap_inflate(z_streamp s, int flush)
{
    using namespace djv;
    g_wrap.inflate_calls++;
    check_region(s->next_in, s->avail_in);
    check_region(s->next_out, s->avail_out);
    if (g_wrap.inflate_calls > g_wrap.inflate_limit)
    {
        const char msg[] = "ub nontermination\n";
        fwrite(msg, 1, sizeof msg - 1, stdout);
        fflush(stdout);
        _Exit(97);
    }
    return __real_inflate(s, flush);
}

int __wrap_deflate(z_streamp s, int flush)
{
    using namespace djv;
    g_wrap.deflate_calls++;
    check_region(s->next_in, s->avail_in);
    check_region(s->next_out, s->avail_out);
    if (!g_wrap.dtrace) return __real_deflate(s, flush);
    unsigned in0 = s->avail_in, out0 = s->avail_out;
    int r = __real_deflate(s, flush);
    g_wrap.dcalls.push_back({flush, in0, out0, in0 - s->avail_in, out0 - s->avail_out, r});
    return r;
}
}
