// Library-level commands: databases, crates, tracks, observation, raw dumps,
// fault injection.  Handles are script variables.
#include <algorithm>
#include <chrono>
#include <cstdio>
#include <cstdlib>
#include <filesystem>
#include <fstream>
#include <optional>
#include <set>
#include <unistd.h>

#include <sqlite3.h>

#include <djinterop/djinterop.hpp>
#include <djinterop/engine/engine.hpp>

#include "djv.hpp"
#include "djv_values.hpp"
#include "djv_state.hpp"

using namespace djv;
namespace dj = djinterop;
namespace e = djinterop::engine;
namespace fs = std::filesystem;

namespace djv
{
namespace lib
{
state::~state()
{
    tracks.clear();
    crates.clear();
    db.reset();
    for (auto& d : made_dirs)
    {
        std::error_code ec;
        fs::remove_all(d, ec);
    }
}
state S;

void reset_all()
{
    S.tracks.clear();
    S.crates.clear();
    S.tracks2.clear();
    S.crates2.clear();
    S.db.reset();
    g_wrap.handles.clear();
}

const std::vector<std::pair<std::string, e::engine_schema>>& schema_names()
{
    using es = e::engine_schema;
    static const std::vector<std::pair<std::string, es>> v{
        {"schema_1_6_0", es::schema_1_6_0},   {"schema_1_7_1", es::schema_1_7_1},
        {"schema_1_9_1", es::schema_1_9_1},   {"schema_1_11_1", es::schema_1_11_1},
        {"schema_1_13_0", es::schema_1_13_0}, {"schema_1_13_1", es::schema_1_13_1},
        {"schema_1_13_2", es::schema_1_13_2}, {"schema_1_15_0", es::schema_1_15_0},
        {"schema_1_17_0", es::schema_1_17_0}, {"schema_1_18_0_desktop", es::schema_1_18_0_desktop},
        {"schema_1_18_0_os", es::schema_1_18_0_os}, {"schema_2_18_0", es::schema_2_18_0},
        {"schema_2_20_1", es::schema_2_20_1}, {"schema_2_20_2", es::schema_2_20_2},
        {"schema_2_20_3", es::schema_2_20_3}, {"schema_2_21_0", es::schema_2_21_0},
        {"schema_2_21_1", es::schema_2_21_1}, {"schema_2_21_2", es::schema_2_21_2},
        {"schema_3_0_0", es::schema_3_0_0}};
    return v;
}
e::engine_schema schema_of(const std::string& n)
{
    for (auto& p : schema_names())
        if (p.first == n) return p.second;
    throw bad_command{"schema " + n};
}
std::string name_of(e::engine_schema s)
{
    for (auto& p : schema_names())
        if (p.second == s) return p.first;
    return "schema_ordinal_" + std::to_string((int)s);
}

std::string new_dir()
{
    const char* base = getenv("DJV_SCRATCH");
    std::string b = base ? base : "/dev/shm";
    // every on-disk library lives under a name that is legal but awkward: blanks, '#', '?', '&', '%41', an
    // apostrophe and a non-ASCII letter (a path handed to SQLite as a URI, to a shell or to a format string would
    // trip over one of them; round 5, seeded C10-3)
    std::string d = b + "/djv." + std::to_string(getpid()) + "." + std::to_string(S.ndirs++) + " Engine Library #2 ?x=%41&y '\xc3\xbc";
    fs::remove_all(d);
    fs::create_directories(d);
    S.made_dirs.push_back(d);
    return d;
}

dj::database& DB()
{
    if (!S.db) throw bad_command{"no database"};
    return *S.db;
}
dj::crate& CR(const std::string& v)
{
    auto it = S.crates.find(v);
    if (it == S.crates.end()) throw bad_command{"crate var " + v};
    if (S.alias)
    {
        auto it2 = S.crates2.find(v);
        if (it2 != S.crates2.end() && (S.alias_ctr++ & 1)) return it2->second;
    }
    return it->second;
}
dj::track& TR(const std::string& v)
{
    S.last_track = v;
    auto it = S.tracks.find(v);
    if (it == S.tracks.end()) throw bad_command{"track var " + v};
    if (S.alias)
    {
        auto it2 = S.tracks2.find(v);
        if (it2 != S.tracks2.end() && (S.alias_ctr++ & 1)) return it2->second;
    }
    return it->second;
}
void put_crate(const std::string& v, const dj::crate& c)
{
    S.crates.erase(v);
    S.crates.emplace(v, c);
    S.crates2.erase(v);
    if (S.alias && S.db)
    {
        try
        {
            if (auto c2 = S.db->crate_by_id(c.id())) S.crates2.emplace(v, *c2);
        }
        catch (const std::exception&)
        {
        }
    }
}
void put_track(const std::string& v, const dj::track& t)
{
    S.tracks.erase(v);
    S.tracks.emplace(v, t);
    S.tracks2.erase(v);
    if (S.alias && S.db)
    {
        try
        {
            if (auto t2 = S.db->track_by_id(t.id())) S.tracks2.emplace(v, *t2);
        }
        catch (const std::exception&)
        {
        }
    }
}

// ------------------------------------------------------------ snapshot text
std::string so(const std::optional<std::string>& s) { return s ? "s" + (s->empty() ? std::string("-") : hexstr(*s)) : "none"; }
std::optional<std::string> rd_ostr(cursor& c)
{
    auto& t = c.next();
    if (t == "none") return std::nullopt;
    if (t.empty() || t[0] != 's') throw bad_command{"opt string"};
    return parse_hexstr(t.substr(1));
}

dj::track_snapshot rd_snapshot(cursor& c)
{
    dj::track_snapshot s;
    s.album = rd_ostr(c);
    s.artist = rd_ostr(c);
    s.average_loudness = c.optf();
    s.beatgrid = rd_grid(c);
    if (auto v = c.opti64()) s.bitrate = (int)*v;
    s.bpm = c.optf();
    s.comment = rd_ostr(c);
    s.composer = rd_ostr(c);
    if (auto v = c.opti64()) s.duration = std::chrono::milliseconds{*v};
    if (auto v = c.opti64()) s.file_bytes = (unsigned long long)*v;
    s.genre = rd_ostr(c);
    {
        auto n = c.count(64);
        for (size_t i = 0; i < n; ++i) s.hot_cues.push_back(rd_optcue(c));
    }
    if (auto v = c.opti64()) s.key = (dj::musical_key)(int)*v;
    if (auto v = c.opti64())
        s.last_played_at = std::chrono::system_clock::time_point{
            std::chrono::duration_cast<std::chrono::system_clock::duration>(std::chrono::nanoseconds{*v})};
    {
        auto n = c.count(64);
        for (size_t i = 0; i < n; ++i) s.loops.push_back(rd_optloop(c));
    }
    s.main_cue = c.optf();
    s.publisher = rd_ostr(c);
    if (auto v = c.opti64()) s.rating = (int)*v;
    s.relative_path = rd_ostr(c);
    {
        auto& t = c.next();
        if (t != "none") s.sample_count = parse_u64(t);
    }
    s.sample_rate = c.optf();
    s.title = rd_ostr(c);
    if (auto v = c.opti64()) s.track_number = (int)*v;
    s.waveform = rd_wf(c);
    if (auto v = c.opti64()) s.year = (int)*v;
    return s;
}

std::string tp(const std::optional<std::chrono::system_clock::time_point>& t)
{
    if (!t) return "none";
    auto ns = std::chrono::duration_cast<std::chrono::nanoseconds>(t->time_since_epoch()).count();
    return std::to_string((long long)ns);
}

std::string wr_cues(const std::vector<std::optional<dj::hot_cue>>& v)
{
    std::string s = std::to_string(v.size());
    for (auto& q : v) s += " " + wr_optcue(q);
    return s;
}
std::string wr_loops(const std::vector<std::optional<dj::loop>>& v)
{
    std::string s = std::to_string(v.size());
    for (auto& q : v) s += " " + wr_optloop(q);
    return s;
}

std::string wr_snapshot(const dj::track_snapshot& s)
{
    std::string o;
    o += so(s.album) + " " + so(s.artist) + " " + fo(s.average_loudness) + " " + wr_grid(s.beatgrid) + " " +
         io_(s.bitrate) + " " + fo(s.bpm) + " " + so(s.comment) + " " + so(s.composer) + " " +
         (s.duration ? std::to_string((long long)s.duration->count()) : std::string("none")) + " " +
         uo_(s.file_bytes) + " " + so(s.genre) + " " + wr_cues(s.hot_cues) + " " +
         (s.key ? std::to_string((int)*s.key) : std::string("none")) + " " + tp(s.last_played_at) + " " +
         wr_loops(s.loops) + " " + fo(s.main_cue) + " " + so(s.publisher) + " " + io_(s.rating) + " " +
         so(s.relative_path) + " " + uo_(s.sample_count) + " " + fo(s.sample_rate) + " " + so(s.title) + " " +
         io_(s.track_number) + " " + wr_wf(s.waveform) + " " + io_(s.year);
    return o;
}

// ------------------------------------------------------------ raw access
std::vector<sqlite3*> live_handles()
{
    std::vector<sqlite3*> v;
    for (void* h : g_wrap.handles) v.push_back((sqlite3*)h);
    return v;
}

std::string raw_query(sqlite3* h, const std::string& sql)
{
    sqlite3_stmt* st = nullptr;
    if (sqlite3_prepare_v2(h, sql.c_str(), -1, &st, nullptr) != SQLITE_OK)
        return std::string("ERR(") + sqlite3_errmsg(h) + ")";
    std::string out;
    int rc;
    extern int __real_sqlite3_step(sqlite3_stmt*) asm("__real_sqlite3_step");
    while ((rc = sqlite3_step(st)) == SQLITE_ROW)
    {
        out += "(";
        int n = sqlite3_column_count(st);
        for (int i = 0; i < n; ++i)
        {
            if (i) out += ",";
            switch (sqlite3_column_type(st, i))
            {
                case SQLITE_NULL: out += "null"; break;
                case SQLITE_INTEGER: out += std::to_string((long long)sqlite3_column_int64(st, i)); break;
                case SQLITE_FLOAT: out += "f" + fd(sqlite3_column_double(st, i)); break;
                case SQLITE_TEXT:
                {
                    std::string s((const char*)sqlite3_column_text(st, i), sqlite3_column_bytes(st, i));
                    out += "s" + hexstr(s);
                    break;
                }
                case SQLITE_BLOB:
                {
                    const auto* p = (const std::byte*)sqlite3_column_blob(st, i);
                    std::vector<std::byte> b(p, p + sqlite3_column_bytes(st, i));
                    out += "b" + hexbytes(b);
                    break;
                }
            }
        }
        out += ")";
    }
    sqlite3_finalize(st);
    if (rc != SQLITE_DONE) out += "ERR";
    return out.empty() ? "()" : out;
}

sqlite3* main_handle()
{
    auto hs = live_handles();
    if (hs.empty()) throw bad_command{"no sqlite handle captured"};
    return hs.back();
}

bool is_v2() { return S.schema.rfind("schema_2", 0) == 0 || S.schema.rfind("schema_3", 0) == 0; }

std::string ids(std::vector<int64_t> v, bool sort)
{
    if (sort) std::sort(v.begin(), v.end());
    std::string s = "[";
    for (size_t i = 0; i < v.size(); ++i) s += (i ? "," : "") + std::to_string((long long)v[i]);
    return s + "]";
}
std::vector<int64_t> cids(const std::vector<dj::crate>& v)
{
    std::vector<int64_t> r;
    for (auto& c : v) r.push_back(c.id());
    return r;
}
std::vector<int64_t> tids(const std::vector<dj::track>& v)
{
    std::vector<int64_t> r;
    for (auto& c : v) r.push_back(c.id());
    return r;
}
}  // namespace lib
}  // namespace djv
using namespace djv::lib;

// ------------------------------------------------------------ database lifecycle
DJV_CMD(create, "create")
{
    auto sch = schema_of(a.at(1));
    bool disk = a.at(2) == "disk";
    S.tracks.clear();
    S.crates.clear();
    S.db.reset();
    g_wrap.handles.clear();
    if (disk)
    {
        S.dir = new_dir();
        // `create <schema> disk over <other 1.x schema>`: the directory still holds the p.db of a library of another
        // 1.x version whose m.db is gone (a library that was reset, a player downgrade); creating must not adopt
        // anything from it
        if (a.size() >= 5 && a.at(3) == "over")
        {
            {
                auto old = e::create_database(S.dir, schema_of(a.at(4)));
            }
            g_wrap.handles.clear();
            std::error_code ec;
            std::filesystem::remove(std::filesystem::path(S.dir) / "m.db", ec);
        }
        // `create <2.x schema> disk beside <1.x schema>`: the directory already holds a legacy library (the state of
        // an Engine Library folder after a migration); the new library is created next to it
        if (a.size() >= 5 && a.at(3) == "beside")
        {
            {
                auto old = e::create_database(S.dir, schema_of(a.at(4)));
            }
            g_wrap.handles.clear();
        }
        S.db = e::create_database(S.dir, sch);
    }
    else
    {
        S.dir = "";
        S.db = e::create_temporary_database(sch);
    }
    S.disk = disk;
    S.schema = a.at(1);
    return "";
}

DJV_CMD(closeall, "closeall")
{
    S.tracks.clear();
    S.crates.clear();
    S.db.reset();
    g_wrap.handles.clear();
    return "";
}

DJV_CMD(load, "load")
{
    if (S.dir.empty()) throw bad_command{"no directory"};
    S.tracks.clear();
    S.crates.clear();
    S.db.reset();
    g_wrap.handles.clear();
    e::engine_schema loaded{};
    S.db = e::load_database(S.dir, loaded);
    S.schema = name_of(loaded);
    return S.schema;
}

// create_or_load <schema> fresh|same -> created=<0|1> schema=<loaded-or-created>
DJV_CMD(create_or_load, "create_or_load")
{
    auto sch = schema_of(a.at(1));
    if (a.at(2) == "fresh") S.dir = new_dir() + "/lib";
    else if (S.dir.empty()) throw bad_command{"no directory"};
    S.tracks.clear();
    S.crates.clear();
    S.db.reset();
    g_wrap.handles.clear();
    bool created = false;
    e::engine_schema loaded{};
    if (a.at(2) == "fresh") fs::create_directories(S.dir);
    if (S.sameref)
    {
        // one variable for the requested schema (const reference in) and the loaded schema (reference out)
        e::engine_schema v = sch;
        S.db = e::create_or_load_database(S.dir, v, created, v);
        loaded = v;
    }
    else
        S.db = e::create_or_load_database(S.dir, sch, created, loaded);
    S.schema = created ? a.at(1) : name_of(loaded);
    S.disk = true;
    return std::string("created=") + (created ? "1" : "0") + " schema=" + S.schema;
}

DJV_CMD(exists, "exists")
{
    if (S.dir.empty()) throw bad_command{"no directory"};
    return e::database_exists(S.dir) ? "1" : "0";
}

// plant <presence:N|L|D|LD> <maj> <min> <pat> <numeric:0|1>  ->  load outcome
DJV_CMD(plant, "plant")
{
    const std::string& pres = a.at(1);
    auto maj = parse_i64(a.at(2)), mi = parse_i64(a.at(3)), pat = parse_i64(a.at(4));
    bool numeric = a.at(5) == "1";
    S.tracks.clear();
    S.crates.clear();
    S.db.reset();
    g_wrap.handles.clear();
    auto dir = new_dir();
    auto mk = [&](const std::string& path)
    {
        sqlite3* h = nullptr;
        if (sqlite3_open(path.c_str(), &h) != SQLITE_OK) throw bad_command{"open"};
        std::string sql =
            "CREATE TABLE Information (id INTEGER PRIMARY KEY, uuid TEXT, schemaVersionMajor INTEGER, "
            "schemaVersionMinor INTEGER, schemaVersionPatch INTEGER, currentPlayedIndiciator INTEGER, "
            "lastRekordBoxLibraryImportReadCounter INTEGER);"
            "INSERT INTO Information VALUES (1, 'u', " +
            std::to_string(maj) + ", " + std::to_string(mi) + ", " + std::to_string(pat) +
            ", 0, 0);"
            "CREATE TABLE Track (id INTEGER PRIMARY KEY, isExternalTrack " +
            std::string(numeric ? "NUMERIC" : "INTEGER") + ");";
        char* err = nullptr;
        if (sqlite3_exec(h, sql.c_str(), nullptr, nullptr, &err) != SQLITE_OK) throw bad_command{"exec"};
        sqlite3_close(h);
    };
    if (pres.find('L') != std::string::npos)
    {
        mk(dir + "/m.db");
        // a legacy library is the pair m.db + p.db (the loader refuses an m.db without its p.db)
        std::ofstream(dir + "/p.db", std::ios::binary).flush();
    }
    if (pres.find('D') != std::string::npos)
    {
        fs::create_directories(dir + "/Database2");
        mk(dir + "/Database2/m.db");
    }
    e::engine_schema loaded{};
    auto db = e::load_database(dir, loaded);
    return name_of(loaded);
}

// ------------------------------------------------------------ crates
static std::string idres(const dj::crate& c) { return "id=" + std::to_string((long long)c.id()); }

DJV_CMD(mkroot, "mkroot")
{
    auto c = DB().create_root_crate(parse_hexstr(a.at(2)));
    put_crate(a.at(1), c);
    return idres(c);
}
DJV_CMD(mkroot_after, "mkroot_after")
{
    auto c = DB().create_root_crate_after(parse_hexstr(a.at(2)), CR(a.at(3)));
    put_crate(a.at(1), c);
    return idres(c);
}
DJV_CMD(mksub, "mksub")
{
    auto c = CR(a.at(2)).create_sub_crate(parse_hexstr(a.at(3)));
    put_crate(a.at(1), c);
    return idres(c);
}
DJV_CMD(mksub_after, "mksub_after")
{
    auto c = CR(a.at(2)).create_sub_crate_after(parse_hexstr(a.at(3)), CR(a.at(4)));
    put_crate(a.at(1), c);
    return idres(c);
}
DJV_CMD(rename_, "rename")
{
    CR(a.at(1)).set_name(parse_hexstr(a.at(2)));
    return "";
}
DJV_CMD(setparent, "setparent")
{
    if (a.at(2) == "-") CR(a.at(1)).set_parent(std::nullopt);
    else CR(a.at(1)).set_parent(CR(a.at(2)));
    return "";
}
DJV_CMD(rmcrate, "rmcrate")
{
    DB().remove_crate(CR(a.at(1)));
    return "";
}
DJV_CMD(addtrack, "addtrack")
{
    CR(a.at(1)).add_track(TR(a.at(2)));
    return "";
}
DJV_CMD(addtrackid, "addtrackid")
{
    CR(a.at(1)).add_track(parse_i64(a.at(2)));
    return "";
}
DJV_CMD(rmtrackfrom, "rmtrackfrom")
{
    CR(a.at(1)).remove_track(TR(a.at(2)));
    return "";
}
DJV_CMD(cleartracks, "cleartracks")
{
    CR(a.at(1)).clear_tracks();
    return "";
}
// getcrate <var> <id>: obtain a handle by id (crate_by_id)
DJV_CMD(getcrate, "getcrate")
{
    auto c = DB().crate_by_id(parse_i64(a.at(2)));
    if (!c) return "none";
    put_crate(a.at(1), *c);
    return idres(*c);
}
DJV_CMD(gettrack, "gettrack")
{
    auto t = DB().track_by_id(parse_i64(a.at(2)));
    if (!t) return "none";
    put_track(a.at(1), *t);
    return "id=" + std::to_string((long long)t->id());
}

// crate.q <var> <query> [arg]
DJV_CMD(crate_q, "crate.q")
{
    auto& c = CR(a.at(1));
    const std::string& q = a.at(2);
    bool v2 = is_v2();
    if (q == "id") return std::to_string((long long)c.id());
    if (q == "valid") return c.is_valid() ? "1" : "0";
    if (q == "name") return hexstr(c.name());
    if (q == "parent")
    {
        auto p = c.parent();
        return p ? std::to_string((long long)p->id()) : "none";
    }
    if (q == "children") return ids(cids(c.children()), !v2);
    if (q == "descendants") return ids(cids(c.descendants()), true);
    if (q == "tracks") return ids(tids(c.tracks()), !v2);
    if (q == "sub_by_name")
    {
        auto p = c.sub_crate_by_name(parse_hexstr(a.at(3)));
        return p ? std::to_string((long long)p->id()) : "none";
    }
    if (q == "copy")
    {
        dj::crate c2 = c;
        dj::crate c3 = c2;
        c3 = c;
        return std::to_string((long long)c3.id());
    }
    throw bad_command{"crate query"};
}

// db.q <query> [arg]
DJV_CMD(db_q, "db.q")
{
    const std::string& q = a.at(1);
    bool v2 = is_v2();
    if (q == "crates") return ids(cids(DB().crates()), true);
    if (q == "root_crates") return ids(cids(DB().root_crates()), !v2);
    if (q == "tracks") return ids(tids(DB().tracks()), true);
    if (q == "crate_by_id")
    {
        auto c = DB().crate_by_id(parse_i64(a.at(2)));
        return c ? std::to_string((long long)c->id()) : "none";
    }
    if (q == "track_by_id")
    {
        auto c = DB().track_by_id(parse_i64(a.at(2)));
        return c ? std::to_string((long long)c->id()) : "none";
    }
    if (q == "crates_by_name") return ids(cids(DB().crates_by_name(parse_hexstr(a.at(2)))), true);
    if (q == "root_by_name")
    {
        auto c = DB().root_crate_by_name(parse_hexstr(a.at(2)));
        return c ? std::to_string((long long)c->id()) : "none";
    }
    if (q == "tracks_by_path") return ids(tids(DB().tracks_by_relative_path(parse_hexstr(a.at(2)))), true);
    if (q == "uuid") return DB().uuid().empty() ? "empty" : "nonempty";
    if (q == "version_name") return hexstr(DB().version_name());
    if (q == "verify")
    {
        DB().verify();
        return "";
    }
    if (q == "directory") return DB().directory() == (S.dir.empty() ? ":memory:" : S.dir) ? "same" : "other";
    throw bad_command{"db query"};
}

// obs: the whole observable crate / membership structure
DJV_CMD(obs, "obs")
{
    bool v2 = is_v2();
    std::string o;
    auto all = DB().crates();
    std::sort(all.begin(), all.end(), [](const dj::crate& x, const dj::crate& y) { return x.id() < y.id(); });
    o += "crates=" + ids(cids(all), true);
    o += " roots=" + ids(cids(DB().root_crates()), !v2);
    for (auto& c : all)
    {
        auto p = c.parent();
        o += " {" + std::to_string((long long)c.id()) + " n=" + hexstr(c.name()) +
             " p=" + (p ? std::to_string((long long)p->id()) : std::string("none")) +
             " ch=" + ids(cids(c.children()), !v2) + " de=" + ids(cids(c.descendants()), true) +
             " tr=" + ids(tids(c.tracks()), !v2) + " v=" + (c.is_valid() ? "1" : "0") + "}";
    }
    auto ts = DB().tracks();
    o += " tracks=" + ids(tids(ts), true);
    if (!v2)
    {
        std::sort(ts.begin(), ts.end(), [](const dj::track& x, const dj::track& y) { return x.id() < y.id(); });
        for (auto& t : ts) o += " <" + std::to_string((long long)t.id()) + " in=" + ids(cids(t.containing_crates()), true) + ">";
    }
    return o;
}

// ------------------------------------------------------------ tracks
DJV_CMD(mktrack, "mktrack")
{
    cursor c{a, 2};
    auto s = rd_snapshot(c);
    c.done();
    auto t = DB().create_track(s);
    put_track(a.at(1), t);
    return "id=" + std::to_string((long long)t.id());
}
DJV_CMD(update, "update")
{
    cursor c{a, 2};
    auto s = rd_snapshot(c);
    c.done();
    TR(a.at(1)).update(s);
    return "";
}
DJV_CMD(rmtrack, "rmtrack")
{
    DB().remove_track(TR(a.at(1)));
    return "";
}
DJV_CMD(snap, "snap")
{
    return wr_snapshot(TR(a.at(1)).snapshot());
}

// get <trackvar> <field> [index]
DJV_CMD(get, "get")
{
    auto& t = TR(a.at(1));
    const std::string& f = a.at(2);
    if (f == "id") return std::to_string((long long)t.id());
    if (f == "valid") return t.is_valid() ? "1" : "0";
    if (f == "album") return so(t.album());
    if (f == "artist") return so(t.artist());
    if (f == "average_loudness") return fo(t.average_loudness());
    if (f == "beatgrid") return wr_grid(t.beatgrid());
    if (f == "bitrate") return io_(t.bitrate());
    if (f == "bpm") return fo(t.bpm());
    if (f == "comment") return so(t.comment());
    if (f == "composer") return so(t.composer());
    if (f == "duration")
    {
        auto d = t.duration();
        return d ? std::to_string((long long)d->count()) : "none";
    }
    if (f == "file_extension") return hexstr(t.file_extension());
    if (f == "filename") return hexstr(t.filename());
    if (f == "genre") return so(t.genre());
    if (f == "hot_cue_at") return wr_optcue(t.hot_cue_at((int)parse_i64(a.at(3))));
    if (f == "hot_cues") return wr_cues(t.hot_cues());
    if (f == "key")
    {
        auto k = t.key();
        return k ? std::to_string((int)*k) : "none";
    }
    if (f == "last_played_at") return tp(t.last_played_at());
    if (f == "loop_at") return wr_optloop(t.loop_at((int)parse_i64(a.at(3))));
    if (f == "loops") return wr_loops(t.loops());
    if (f == "main_cue") return fo(t.main_cue());
    if (f == "publisher") return so(t.publisher());
    if (f == "rating") return io_(t.rating());
    if (f == "relative_path") return hexstr(t.relative_path());
    if (f == "sample_count") return uo_(t.sample_count());
    if (f == "sample_rate") return fo(t.sample_rate());
    if (f == "title") return so(t.title());
    if (f == "track_number") return io_(t.track_number());
    if (f == "waveform") return wr_wf(t.waveform());
    if (f == "year") return io_(t.year());
    if (f == "containing_crates") return ids(cids(t.containing_crates()), true);
    if (f == "copy")
    {
        dj::track t2 = t;
        dj::track t3 = t2;
        t3 = t;
        return std::to_string((long long)t3.id());
    }
    throw bad_command{"field " + f};
}

// every per-field getter of a track as one text (an exception is part of the answer)
std::string djv::lib::track_getters_text(const dj::track& t)
{
    auto g = [](const char* name, auto&& f) -> std::string
    {
        try
        {
            return std::string(" ") + name + "=" + f();
        }
        catch (const std::exception&)
        {
            return std::string(" ") + name + "=throw";
        }
    };
    std::string o;
    o += g("valid", [&] { return std::string(t.is_valid() ? "1" : "0"); });
    o += g("album", [&] { return so(t.album()); });
    o += g("artist", [&] { return so(t.artist()); });
    o += g("average_loudness", [&] { return fo(t.average_loudness()); });
    o += g("beatgrid", [&] { return wr_grid(t.beatgrid()); });
    o += g("bitrate", [&] { return io_(t.bitrate()); });
    o += g("bpm", [&] { return fo(t.bpm()); });
    o += g("comment", [&] { return so(t.comment()); });
    o += g("composer", [&] { return so(t.composer()); });
    o += g("duration", [&] { auto d = t.duration(); return d ? std::to_string((long long)d->count()) : std::string("none"); });
    o += g("file_extension", [&] { return hexstr(t.file_extension()); });
    o += g("filename", [&] { return hexstr(t.filename()); });
    o += g("genre", [&] { return so(t.genre()); });
    o += g("hot_cues", [&] { return wr_cues(t.hot_cues()); });
    o += g("hot_cue_at3", [&] { return wr_optcue(t.hot_cue_at(3)); });
    o += g("key", [&] { auto k = t.key(); return k ? std::to_string((int)*k) : std::string("none"); });
    o += g("last_played_at", [&] { return tp(t.last_played_at()); });
    o += g("loops", [&] { return wr_loops(t.loops()); });
    o += g("loop_at3", [&] { return wr_optloop(t.loop_at(3)); });
    o += g("main_cue", [&] { return fo(t.main_cue()); });
    o += g("publisher", [&] { return so(t.publisher()); });
    o += g("rating", [&] { return io_(t.rating()); });
    o += g("relative_path", [&] { return hexstr(t.relative_path()); });
    o += g("sample_count", [&] { return uo_(t.sample_count()); });
    o += g("sample_rate", [&] { return fo(t.sample_rate()); });
    o += g("title", [&] { return so(t.title()); });
    o += g("track_number", [&] { return io_(t.track_number()); });
    o += g("waveform", [&] { return std::to_string(std::hash<std::string>{}(wr_wf(t.waveform()))); });
    o += g("year", [&] { return io_(t.year()); });
    return o;
}

// set <trackvar> <field> <value...>
// Every setter that has a plain-value convenience overload next to the
// std::optional one (track.hpp) is called through the two alternately when the
// value is present: the overloads are public entry points of their own.
static unsigned g_set_overload = 0;
#define DJV_SETOVL(T, M, expr)                                       \
    do                                                               \
    {                                                                \
        std::optional<T> v_ = (expr);                                \
        if (v_ && (++g_set_overload & 1u)) t.M(static_cast<T>(std::move(*v_)));   \
        else t.M(v_);                                                \
    } while (0)
DJV_CMD(set, "set")
{
    auto& t = TR(a.at(1));
    const std::string& f = a.at(2);
    cursor c{a, 3};
    auto oint = [&]() -> std::optional<int>
    {
        auto v = c.opti64();
        if (!v) return std::nullopt;
        return (int)*v;
    };
    if (f == "album") DJV_SETOVL(std::string, set_album, rd_ostr(c));
    else if (f == "artist") DJV_SETOVL(std::string, set_artist, rd_ostr(c));
    else if (f == "average_loudness") DJV_SETOVL(double, set_average_loudness, c.optf());
    else if (f == "beatgrid") t.set_beatgrid(rd_grid(c));
    else if (f == "bitrate") DJV_SETOVL(int, set_bitrate, oint());
    else if (f == "bpm") DJV_SETOVL(double, set_bpm, c.optf());
    else if (f == "comment") DJV_SETOVL(std::string, set_comment, rd_ostr(c));
    else if (f == "composer") DJV_SETOVL(std::string, set_composer, rd_ostr(c));
    else if (f == "duration")
    {
        auto v = c.opti64();
        DJV_SETOVL(std::chrono::milliseconds, set_duration, v ? std::make_optional(std::chrono::milliseconds{*v}) : std::nullopt);
    }
    else if (f == "genre") DJV_SETOVL(std::string, set_genre, rd_ostr(c));
    else if (f == "hot_cue_at")
    {
        int i = (int)c.i64();
        std::optional<dj::hot_cue> v = rd_optcue(c);
        if (v && (++g_set_overload & 1u)) t.set_hot_cue_at(i, dj::hot_cue(*v));
        else t.set_hot_cue_at(i, v);
    }
    else if (f == "hot_cues")
    {
        std::vector<std::optional<dj::hot_cue>> v;
        auto n = c.count(64);
        for (size_t i = 0; i < n; ++i) v.push_back(rd_optcue(c));
        t.set_hot_cues(v);
    }
    else if (f == "key")
    {
        auto v = c.opti64();
        DJV_SETOVL(dj::musical_key, set_key, v ? std::make_optional((dj::musical_key)(int)*v) : std::nullopt);
    }
    else if (f == "last_played_at")
    {
        auto v = c.opti64();
        DJV_SETOVL(std::chrono::system_clock::time_point, set_last_played_at,
                   v ? std::make_optional(std::chrono::system_clock::time_point{
                           std::chrono::duration_cast<std::chrono::system_clock::duration>(std::chrono::nanoseconds{*v})})
                     : std::nullopt);
    }
    else if (f == "loop_at")
    {
        int i = (int)c.i64();
        std::optional<dj::loop> v = rd_optloop(c);
        if (v && (++g_set_overload & 1u)) t.set_loop_at(i, dj::loop(*v));
        else t.set_loop_at(i, v);
    }
    else if (f == "loops")
    {
        std::vector<std::optional<dj::loop>> v;
        auto n = c.count(64);
        for (size_t i = 0; i < n; ++i) v.push_back(rd_optloop(c));
        t.set_loops(v);
    }
    else if (f == "main_cue") t.set_main_cue(c.optf());
    else if (f == "publisher") DJV_SETOVL(std::string, set_publisher, rd_ostr(c));
    else if (f == "rating") DJV_SETOVL(int, set_rating, oint());
    else if (f == "relative_path") t.set_relative_path(c.str());
    else if (f == "sample_count")
    {
        auto& tk = c.next();
        DJV_SETOVL(unsigned long long, set_sample_count, tk == "none" ? std::nullopt : std::make_optional((unsigned long long)parse_u64(tk)));
    }
    else if (f == "sample_rate") DJV_SETOVL(double, set_sample_rate, c.optf());
    else if (f == "title") DJV_SETOVL(std::string, set_title, rd_ostr(c));
    else if (f == "track_number") DJV_SETOVL(int, set_track_number, oint());
    else if (f == "waveform") t.set_waveform(rd_wf(c));
    else if (f == "year") DJV_SETOVL(int, set_year, oint());
    else throw bad_command{"field " + f};
    c.done();
    return "";
}

// ------------------------------------------------------------ raw tables, monitors
// rawq <sql-hex>: run a query on the library's own connection through the C
// API (no library code on the path).
DJV_CMD(rawq, "rawq")
{
    return raw_query(main_handle(), parse_hexstr(a.at(1)));
}

// rawx <sql-hex>: execute (possibly several) statements, e.g. to plant a column
DJV_CMD(rawx, "rawx")
{
    char* err = nullptr;
    auto sql = parse_hexstr(a.at(1));
    int rc = sqlite3_exec(main_handle(), sql.c_str(), nullptr, nullptr, &err);
    if (rc != SQLITE_OK)
    {
        std::string m = err ? err : "";
        sqlite3_free(err);
        return "ERR " + hexstr(m);
    }
    return "";
}

DJV_CMD(changes, "changes")
{
    return std::to_string(sqlite3_total_changes(main_handle()));
}

// fault <k>: make the k-th (0-based) non-read statement from now fail once
DJV_CMD(fault, "fault")
{
    g_wrap.fail_at_write = parse_i64(a.at(1));
    g_wrap.writes_seen = 0;
    g_wrap.fault_fired = false;
    return "";
}
DJV_CMD(fault_status, "fault.status")
{
    std::string r = std::string("fired=") + (g_wrap.fault_fired ? "1" : "0") + " seen=" + std::to_string(g_wrap.writes_seen);
    g_wrap.fail_at_write = -1;
    return r;
}
DJV_CMD(trace, "trace")
{
    if (a.at(1) == "on")
    {
        g_wrap.trace = true;
        g_wrap.trace_lines.clear();
        return "";
    }
    if (a.at(1) == "off")
    {
        g_wrap.trace = false;
        return "";
    }
    if (a.at(1) == "get")
    {
        std::string s;
        for (auto& l : g_wrap.trace_lines) s += (s.empty() ? "" : ",") + l;
        g_wrap.trace_lines.clear();
        return s.empty() ? "-" : s;
    }
    throw bad_command{"trace"};
}
DJV_CMD(filehash, "filehash")
{
    // cheap content fingerprint of every file in the library directory
    if (S.dir.empty()) return "mem";
    std::vector<std::string> files;
    for (auto& p : fs::recursive_directory_iterator(S.dir))
        if (p.is_regular_file()) files.push_back(p.path().string());
    std::sort(files.begin(), files.end());
    uint64_t h = 1469598103934665603ull;
    for (auto& f : files)
    {
        std::ifstream in(f, std::ios::binary);
        char buf[65536];
        while (in)
        {
            in.read(buf, sizeof buf);
            auto n = in.gcount();
            for (std::streamsize i = 0; i < n; ++i)
            {
                h ^= (unsigned char)buf[i];
                h *= 1099511628211ull;
            }
        }
        for (char ch : f.substr(S.dir.size()))
        {
            h ^= (unsigned char)ch;
            h *= 1099511628211ull;
        }
    }
    return hex64(h) + " files=" + std::to_string(files.size());
}
