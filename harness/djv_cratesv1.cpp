// Commands of the schema-1.x crate work-package (C07/C08/C11, 1.x half):
//   v1.obs <hexname>*   the full structural observation of crates / membership
//                       (every public query, on live crates AND on the handles
//                       the script still holds of removed ones) followed by the
//                       raw rows of the crate tables read through the C API on
//                       the library's own connection (no library code).
//   v1.mktrack <var> <n> [hexpath]   create a minimal track with relative path "t<n>.mp3" (or the given one)
//   v1.trackcols        raw Track (id, path, filename) rows and the file-extension MetaData rows (type 13),
//                       read through the C API (C11: derived per-track columns), and the ids of the rows that
//                       depend on a track (MetaData, MetaDataInteger, PerformanceData) next to the Track ids
//   v1.save / v1.restore   snapshot / restore the whole library image
//                          (sqlite3_serialize of the attached databases) and the
//                          script's handle variables; used by the state-space
//                          exploration to try every operation from one state.
// Every sub-query of v1.obs is caught separately: a throwing query is printed
// as !<exception class>, the observation as a whole never throws.
#include <algorithm>
#include <map>
#include <set>

#include <sqlite3.h>
#include <sqlite_modern_cpp.h>

#include <djinterop/djinterop.hpp>

#include "djv.hpp"
#include "djv_state.hpp"

using namespace djv;
using namespace djv::lib;
namespace dj = djinterop;

namespace
{
std::string exn_name(const std::exception& e)
{
#define K(T, name) \
    if (dynamic_cast<const T*>(&e)) return name;
    K(dj::crate_database_inconsistency, "crate_database_inconsistency")
    K(dj::track_database_inconsistency, "track_database_inconsistency")
    K(dj::database_inconsistency, "database_inconsistency")
    K(dj::crate_deleted, "crate_deleted")
    K(dj::crate_already_exists, "crate_already_exists")
    K(dj::crate_invalid_parent, "crate_invalid_parent")
    K(dj::crate_invalid_name, "crate_invalid_name")
    K(dj::track_deleted, "track_deleted")
    K(sqlite::sqlite_exception, "sqlite_error")
    K(std::invalid_argument, "invalid_argument")
    K(std::logic_error, "logic_error")
    K(std::runtime_error, "runtime_error")
#undef K
    return "std_exception";
}

template <class F>
std::string guarded(F f)
{
    try
    {
        return f();
    }
    catch (const std::exception& e)
    {
        return "!" + exn_name(e);
    }
}

std::string lst(std::vector<int64_t> v)
{
    std::sort(v.begin(), v.end());
    if (v.empty()) return "-";
    std::string s;
    for (size_t i = 0; i < v.size(); ++i) s += (i ? "," : "") + std::to_string((long long)v[i]);
    return s;
}
std::string oid(const std::optional<dj::crate>& c) { return c ? std::to_string((long long)c->id()) : "none"; }

bool has_list_views()
{
    // `Crate` & co. are views over List* from 1.9.1 on
    return !(S.schema == "schema_1_6_0" || S.schema == "schema_1_7_1");
}

struct image
{
    std::vector<unsigned char> music, perf;
    std::map<std::string, dj::crate> crates;
    std::map<std::string, dj::track> tracks;
    bool valid = false;
};
image g_img;

std::vector<unsigned char> ser(sqlite3* h, const char* schema)
{
    sqlite3_int64 sz = 0;
    unsigned char* p = sqlite3_serialize(h, schema, &sz, 0);
    if (!p) throw bad_command{"serialize"};
    std::vector<unsigned char> v(p, p + sz);
    sqlite3_free(p);
    return v;
}
void deser(sqlite3* h, const char* schema, const std::vector<unsigned char>& v)
{
    auto* p = (unsigned char*)sqlite3_malloc64(v.size());
    if (!p) throw bad_command{"malloc"};
    std::copy(v.begin(), v.end(), p);
    int rc = sqlite3_deserialize(h, schema, p, (sqlite3_int64)v.size(), (sqlite3_int64)v.size(),
                                 SQLITE_DESERIALIZE_FREEONCLOSE | SQLITE_DESERIALIZE_RESIZEABLE);
    if (rc != SQLITE_OK) throw bad_command{"deserialize rc=" + std::to_string(rc)};
}
}  // namespace

DJV_CMD(v1_mktrack, "v1.mktrack")
{
    dj::track_snapshot s;
    s.relative_path = a.size() > 3 ? parse_hexstr(a.at(3)) : "t" + a.at(2) + ".mp3";
    // sample count / rate present: stays clear of the absent-optional dereference in the 1.x waveform conversion
    s.sample_count = 441000;
    s.sample_rate = 44100;
    auto t = DB().create_track(s);
    put_track(a.at(1), t);
    return "id=" + std::to_string((long long)t.id());
}

DJV_CMD(v1_trackcols, "v1.trackcols")
{
    if (is_v2()) throw bad_command{"v1.trackcols on a 2.x library"};
    auto* h = main_handle();
    return "Track " + raw_query(h, "SELECT id, path, filename FROM Track WHERE path IS NOT NULL ORDER BY 1") +
           " Ext " + raw_query(h, "SELECT id, text FROM MetaData WHERE type = 13 ORDER BY 1") +
           // rows that depend on a track (ON DELETE CASCADE in the schema; PerformanceData lives in the other file)
           " Dep " + raw_query(h, "SELECT id FROM MetaData UNION SELECT id FROM MetaDataInteger ORDER BY 1") +
           " Perf " + raw_query(h, "SELECT id FROM PerformanceData ORDER BY 1") +
           " Ids " + raw_query(h, "SELECT id FROM Track ORDER BY 1");
}

DJV_CMD(v1_save, "v1.save")
{
    if (is_v2() || S.disk) throw bad_command{"v1.save: in-memory 1.x library only"};
    auto* h = main_handle();
    g_img.music = ser(h, "music");
    g_img.perf = ser(h, "perfdata");
    g_img.crates = S.crates;
    g_img.tracks = S.tracks;
    g_img.valid = true;
    return "";
}

DJV_CMD(v1_restore, "v1.restore")
{
    if (!g_img.valid) throw bad_command{"v1.restore: nothing saved"};
    auto* h = main_handle();
    deser(h, "music", g_img.music);
    deser(h, "perfdata", g_img.perf);
    S.crates = g_img.crates;
    S.tracks = g_img.tracks;
    return "";
}

DJV_CMD(v1_obs, "v1.obs")
{
    if (is_v2()) throw bad_command{"v1.obs on a 2.x library"};
    std::vector<std::string> names;
    for (size_t i = 1; i < a.size(); ++i) names.push_back(parse_hexstr(a[i]));

    std::string o;
    auto& db = DB();
    // universe of crates: what crates() returns plus every handle the script holds
    std::map<int64_t, dj::crate> uni;
    std::string crates_s = guarded([&] {
        auto all = db.crates();
        for (auto& c : all) uni.emplace(c.id(), c);
        return lst(cids(all));
    });
    for (auto& kv : S.crates) uni.emplace(kv.second.id(), kv.second);
    o += "crates " + crates_s;
    o += " roots " + guarded([&] { return lst(cids(db.root_crates())); });
    std::map<int64_t, dj::track> tuni;
    std::string tracks_s = guarded([&] {
        auto all = db.tracks();
        for (auto& t : all) tuni.emplace(t.id(), t);
        return lst(tids(all));
    });
    for (auto& kv : S.tracks) tuni.emplace(kv.second.id(), kv.second);
    o += " tracks " + tracks_s;
    for (auto& kv : uni)
    {
        auto c = kv.second;
        o += " C " + std::to_string((long long)kv.first);
        o += " " + guarded([&] { return std::string(c.is_valid() ? "1" : "0"); });
        o += " " + guarded([&] { return hexstr(c.name()); });
        o += " " + guarded([&] { return oid(c.parent()); });
        o += " " + guarded([&] { return lst(cids(c.children())); });
        o += " " + guarded([&] { return lst(cids(c.descendants())); });
        o += " " + guarded([&] { return lst(tids(c.tracks())); });
        o += " " + guarded([&] { return oid(db.crate_by_id(kv.first)); });
        o += " " + std::to_string(names.size());
        for (auto& n : names) o += " " + guarded([&] { return oid(c.sub_crate_by_name(n)); });
    }
    for (auto& kv : tuni)
    {
        auto t = kv.second;
        o += " T " + std::to_string((long long)kv.first);
        o += " " + guarded([&] { return std::string(t.is_valid() ? "1" : "0"); });
        o += " " + guarded([&] { return lst(cids(t.containing_crates())); });
    }
    for (auto& n : names)
    {
        o += " N " + hexstr(n);
        o += " " + guarded([&] { return lst(cids(db.crates_by_name(n))); });
        o += " " + guarded([&] { return oid(db.root_crate_by_name(n)); });
    }
    auto* h = main_handle();
    o += " raw Crate " + raw_query(h, "SELECT id, title, path FROM Crate ORDER BY 1, 2, 3");
    o += " CPL " + raw_query(h, "SELECT crateOriginId, crateParentId FROM CrateParentList ORDER BY 1, 2");
    o += " CH " + raw_query(h, "SELECT crateId, crateIdChild FROM CrateHierarchy ORDER BY 1, 2");
    o += " CTL " + raw_query(h, "SELECT crateId, trackId FROM CrateTrackList ORDER BY 1, 2");
    o += " Track " + raw_query(h, "SELECT id, path IS NOT NULL FROM Track ORDER BY 1");
    o += " LTL " + (has_list_views()
                        ? raw_query(h, "SELECT listId, trackId FROM ListTrackList WHERE listType = 4 ORDER BY 1, 2")
                        : std::string("-"));
    return o;
}
