// Monitor commands for C14 (failure atomicity), C16 (observers are pure) and
// C10 (reopen): full self-observation of a library, the complete list of
// read-only operations, and the 2.x table API read functions.
//
//   autocommit                 -> 1|0   sqlite3_get_autocommit of the library's connection
//   fullobs [verbose]          -> api=<h> uuid=<h> raw=<h> tables=<db.tbl:h,...>   (verbose: the texts;
//                                 api = every observer's answer on every crate / track, UUID masked)
//   observers                  -> one entry per read-only operation, applied twice:
//                                 <name>:<kinds>:<changes-delta>:<stable 0|1>
//                                 plus raw=<same|differs> answers=<h>
//   tableapi.reads             -> the same for the 2.x table API (on-disk 2.x libraries)
//   staticops <dir-state>      -> database_exists / load_database as observers of the directory
#include <algorithm>
#include <cxxabi.h>
#include <filesystem>
#include <functional>
#include <set>
#include <typeinfo>

#include <sqlite3.h>

#include <djinterop/djinterop.hpp>
#include <djinterop/engine/engine.hpp>
#include <djinterop/engine/v2/engine_library.hpp>

#include "djv.hpp"
#include "djv_state.hpp"
#include "djv_values.hpp"

using namespace djv;
using namespace djv::lib;
namespace dj = djinterop;
namespace e = djinterop::engine;
namespace ev2 = djinterop::engine::v2;

namespace
{
uint64_t fnv(const std::string& s)
{
    uint64_t h = 1469598103934665603ull;
    for (unsigned char c : s)
    {
        h ^= c;
        h *= 1099511628211ull;
    }
    return h;
}
std::string hs(const std::string& s) { return hex64(fnv(s)); }
// the database UUID is random per created library: masked when observations of
// different libraries are compared (C14 retry), shown when the same library is
// observed twice (C10, C16)
bool g_mask_uuid = false;
std::string uuid_text(const std::string& u) { return g_mask_uuid ? std::string(u.empty() ? "empty" : "nonempty") : hs(u); }

std::string exn_name(const std::exception& ex)
{
    int st = 0;
    char* d = abi::__cxa_demangle(typeid(ex).name(), nullptr, nullptr, &st);
    std::string n = (st == 0 && d) ? d : typeid(ex).name();
    free(d);
    for (auto& c : n)
        if (c == ' ') c = '_';
    return n;
}

// run an observation; an exception is an answer like any other
std::string safe(const std::function<std::string()>& f)
{
    try
    {
        return f();
    }
    catch (const bad_command&)
    {
        throw;
    }
    catch (const std::exception& ex)
    {
        return "throw:" + exn_name(ex);
    }
}

std::string oc(const std::optional<dj::crate>& c) { return c ? std::to_string((long long)c->id()) : "none"; }

std::string dur(const std::optional<std::chrono::milliseconds>& d)
{
    return d ? std::to_string((long long)d->count()) : "none";
}
std::string keystr(const std::optional<dj::musical_key>& k) { return k ? std::to_string((int)*k) : "none"; }

using track_obs = std::pair<const char*, std::function<std::string(dj::track&)>>;
const std::vector<track_obs>& track_observers()
{
    static const std::vector<track_obs> v{
        {"track.id", [](dj::track& t) { return std::to_string((long long)t.id()); }},
        {"track.is_valid", [](dj::track& t) { return std::string(t.is_valid() ? "1" : "0"); }},
        {"track.snapshot", [](dj::track& t) { return wr_snapshot(t.snapshot()); }},
        {"track.album", [](dj::track& t) { return so(t.album()); }},
        {"track.artist", [](dj::track& t) { return so(t.artist()); }},
        {"track.average_loudness", [](dj::track& t) { return fo(t.average_loudness()); }},
        {"track.beatgrid", [](dj::track& t) { return wr_grid(t.beatgrid()); }},
        {"track.bitrate", [](dj::track& t) { return io_(t.bitrate()); }},
        {"track.bpm", [](dj::track& t) { return fo(t.bpm()); }},
        {"track.comment", [](dj::track& t) { return so(t.comment()); }},
        {"track.composer", [](dj::track& t) { return so(t.composer()); }},
        {"track.containing_crates", [](dj::track& t) { return ids(cids(t.containing_crates()), true); }},
        {"track.db", [](dj::track& t) { return t.db().uuid().empty() ? std::string("empty") : std::string("nonempty"); }},
        {"track.duration", [](dj::track& t) { return dur(t.duration()); }},
        {"track.file_extension", [](dj::track& t) { return hexstr(t.file_extension()); }},
        {"track.filename", [](dj::track& t) { return hexstr(t.filename()); }},
        {"track.genre", [](dj::track& t) { return so(t.genre()); }},
        {"track.hot_cues", [](dj::track& t) { return wr_cues(t.hot_cues()); }},
        {"track.hot_cue_at",
         [](dj::track& t)
         {
             // every valid slot (the slot count is read first: out-of-range slots are C15's subject)
             auto n = t.hot_cues().size();
             std::string s;
             for (size_t i = 0; i < n; ++i) s += wr_optcue(t.hot_cue_at((int)i)) + ";";
             return s;
         }},
        {"track.key", [](dj::track& t) { return keystr(t.key()); }},
        {"track.last_played_at", [](dj::track& t) { return tp(t.last_played_at()); }},
        {"track.loops", [](dj::track& t) { return wr_loops(t.loops()); }},
        {"track.loop_at",
         [](dj::track& t)
         {
             auto n = t.loops().size();
             std::string s;
             for (size_t i = 0; i < n; ++i) s += wr_optloop(t.loop_at((int)i)) + ";";
             return s;
         }},
        {"track.main_cue", [](dj::track& t) { return fo(t.main_cue()); }},
        {"track.publisher", [](dj::track& t) { return so(t.publisher()); }},
        {"track.rating", [](dj::track& t) { return io_(t.rating()); }},
        {"track.relative_path", [](dj::track& t) { return hexstr(t.relative_path()); }},
        {"track.sample_count", [](dj::track& t) { return uo_(t.sample_count()); }},
        {"track.sample_rate", [](dj::track& t) { return fo(t.sample_rate()); }},
        {"track.title", [](dj::track& t) { return so(t.title()); }},
        {"track.track_number", [](dj::track& t) { return io_(t.track_number()); }},
        {"track.waveform", [](dj::track& t) { return wr_wf(t.waveform()); }},
        {"track.year", [](dj::track& t) { return io_(t.year()); }},
        {"track.copy",
         [](dj::track& t)
         {
             dj::track t2 = t;
             dj::track t3 = t2;
             t3 = t;
             return std::to_string((long long)t3.id());
         }},
    };
    return v;
}

using crate_obs = std::pair<const char*, std::function<std::string(dj::crate&)>>;
const std::vector<crate_obs>& crate_observers()
{
    static const std::vector<crate_obs> v{
        {"crate.id", [](dj::crate& c) { return std::to_string((long long)c.id()); }},
        {"crate.is_valid", [](dj::crate& c) { return std::string(c.is_valid() ? "1" : "0"); }},
        {"crate.name", [](dj::crate& c) { return hexstr(c.name()); }},
        {"crate.parent", [](dj::crate& c) { return oc(c.parent()); }},
        {"crate.children", [](dj::crate& c) { return ids(cids(c.children()), !is_v2()); }},
        {"crate.descendants", [](dj::crate& c) { return ids(cids(c.descendants()), true); }},
        {"crate.tracks", [](dj::crate& c) { return ids(tids(c.tracks()), !is_v2()); }},
        {"crate.db", [](dj::crate& c) { return c.db().uuid().empty() ? std::string("empty") : std::string("nonempty"); }},
        {"crate.sub_crate_by_name",
         [](dj::crate& c)
         {
             // by the name of each child, and by a name no child has
             std::string s;
             for (auto& ch : c.children()) s += oc(c.sub_crate_by_name(ch.name())) + ",";
             s += oc(c.sub_crate_by_name("\x01no such crate"));
             return s;
         }},
        {"crate.copy",
         [](dj::crate& c)
         {
             dj::crate c2 = c;
             dj::crate c3 = c2;
             c3 = c;
             return std::to_string((long long)c3.id());
         }},
    };
    return v;
}

std::vector<dj::crate> sorted_crates()
{
    auto all = DB().crates();
    std::sort(all.begin(), all.end(), [](const dj::crate& x, const dj::crate& y) { return x.id() < y.id(); });
    return all;
}
std::vector<dj::track> sorted_tracks()
{
    auto ts = DB().tracks();
    std::sort(ts.begin(), ts.end(), [](const dj::track& x, const dj::track& y) { return x.id() < y.id(); });
    return ts;
}

using db_obs = std::pair<const char*, std::function<std::string()>>;
const std::vector<db_obs>& db_observers()
{
    static const std::vector<db_obs> v{
        {"db.crates", [] { return ids(cids(DB().crates()), true); }},
        {"db.root_crates", [] { return ids(cids(DB().root_crates()), !is_v2()); }},
        {"db.tracks", [] { return ids(tids(DB().tracks()), true); }},
        {"db.crate_by_id",
         []
         {
             std::string s;
             for (auto& c : sorted_crates()) s += oc(DB().crate_by_id(c.id())) + ",";
             return s + oc(DB().crate_by_id(987654321)) + "," + oc(DB().crate_by_id(0)) + "," + oc(DB().crate_by_id(-1));
         }},
        {"db.track_by_id",
         []
         {
             std::string s;
             for (auto& t : sorted_tracks())
             {
                 auto r = DB().track_by_id(t.id());
                 s += (r ? std::to_string((long long)r->id()) : std::string("none")) + ",";
             }
             auto r = DB().track_by_id(987654321);
             return s + (r ? "some" : "none");
         }},
        {"db.crates_by_name",
         []
         {
             std::string s;
             std::set<std::string> names;
             for (auto& c : sorted_crates()) names.insert(c.name());
             for (auto& n : names) s += ids(cids(DB().crates_by_name(n)), true);
             return s + ids(cids(DB().crates_by_name("\x01no such crate")), true);
         }},
        {"db.root_crate_by_name",
         []
         {
             std::string s;
             std::set<std::string> names;
             for (auto& c : sorted_crates()) names.insert(c.name());
             for (auto& n : names) s += oc(DB().root_crate_by_name(n)) + ",";
             return s + oc(DB().root_crate_by_name("\x01no such crate"));
         }},
        {"db.tracks_by_relative_path",
         []
         {
             std::string s;
             std::set<std::string> paths;
             for (auto& t : sorted_tracks()) paths.insert(t.relative_path());
             for (auto& p : paths) s += ids(tids(DB().tracks_by_relative_path(p)), true);
             return s + ids(tids(DB().tracks_by_relative_path("\x01no/such/path.mp3")), true);
         }},
        {"db.uuid", [] { return uuid_text(DB().uuid()); }},
        {"db.version_name", [] { return hexstr(DB().version_name()); }},
        {"db.directory", [] { return hs(DB().directory()); }},
        {"db.verify",
         []
         {
             DB().verify();
             return std::string("verified");
         }},
        {"db.copy",
         []
         {
             dj::database d2 = DB();
             dj::database d3 = d2;
             d3 = DB();
             return uuid_text(d3.uuid());
         }},
    };
    return v;
}

// ---------------------------------------------------------------- observation texts
std::string api_text()
{
    std::string o;
    for (auto& ob : db_observers()) o += std::string(ob.first) + "=" + safe(ob.second) + "\n";
    for (auto& c : sorted_crates())
    {
        o += "crate " + std::to_string((long long)c.id()) + ":";
        for (auto& ob : crate_observers())
        {
            auto cc = c;
            o += std::string(" ") + ob.first + "=" + safe([&] { return ob.second(cc); });
        }
        o += "\n";
    }
    for (auto& t : sorted_tracks())
    {
        o += "track " + std::to_string((long long)t.id()) + ":";
        for (auto& ob : track_observers())
        {
            auto tt = t;
            o += std::string(" ") + ob.first + "=" + safe([&] { return ob.second(tt); });
        }
        o += "\n";
    }
    return o;
}

// raw dump of every table of every attached database, through the C API
std::vector<std::pair<std::string, std::string>> raw_tables(sqlite3* h)
{
    std::vector<std::pair<std::string, std::string>> out;
    std::vector<std::string> dbs;
    {
        sqlite3_stmt* st = nullptr;
        if (sqlite3_prepare_v2(h, "PRAGMA database_list", -1, &st, nullptr) != SQLITE_OK)
            throw bad_command{"database_list"};
        while (sqlite3_step(st) == SQLITE_ROW) dbs.push_back((const char*)sqlite3_column_text(st, 1));
        sqlite3_finalize(st);
    }
    for (auto& d : dbs)
    {
        std::vector<std::string> tbls;
        sqlite3_stmt* st = nullptr;
        std::string q = "SELECT name FROM \"" + d + "\".sqlite_master WHERE type = 'table' ORDER BY name";
        if (sqlite3_prepare_v2(h, q.c_str(), -1, &st, nullptr) != SQLITE_OK) continue;
        while (sqlite3_step(st) == SQLITE_ROW) tbls.push_back((const char*)sqlite3_column_text(st, 0));
        sqlite3_finalize(st);
        for (auto& t : tbls)
            out.emplace_back(d + "." + t, raw_query(h, "SELECT * FROM \"" + d + "\".\"" + t + "\""));
    }
    return out;
}

std::string raw_text(sqlite3* h)
{
    std::string s;
    for (auto& p : raw_tables(h)) s += p.first + " " + p.second + "\n";
    return s;
}

struct trace_guard
{
    bool old;
    std::vector<std::string> saved;
    trace_guard() : old(g_wrap.trace), saved(g_wrap.trace_lines)
    {
        g_wrap.trace = true;
        g_wrap.trace_lines.clear();
    }
    ~trace_guard()
    {
        g_wrap.trace = old;
        g_wrap.trace_lines = saved;
    }
};

// one observer, applied twice, monitored
struct obs_result
{
    std::string answers;  // first answer
    bool stable = true;
    std::set<std::string> kinds;
    long changes = 0;
};

void monitor(obs_result& r, const std::function<sqlite3*()>& handle, const std::function<std::string()>& f)
{
    sqlite3* h = handle();
    long c0 = h ? sqlite3_total_changes(h) : 0;
    std::string a1, a2;
    {
        trace_guard g;
        a1 = safe(f);
        a2 = safe(f);
        for (auto& k : g_wrap.trace_lines) r.kinds.insert(k);
    }
    h = handle();
    long c1 = h ? sqlite3_total_changes(h) : 0;
    r.changes += c1 - c0;
    if (a1 != a2) r.stable = false;
    r.answers += a1 + "\x1f";
}

std::string render(const std::map<std::string, obs_result>& m, const std::vector<std::string>& order)
{
    std::string o, all;
    for (auto& n : order)
    {
        auto& r = m.at(n);
        std::string k;
        for (auto& x : r.kinds) k += (k.empty() ? "" : ",") + x;
        if (k.empty()) k = "-";
        o += n + ":" + k + ":" + std::to_string(r.changes) + ":" + (r.stable ? "1" : "0") + " ";
        all += n + "=" + r.answers + "\n";
    }
    return o + "answers=" + hs(all);
}
}  // namespace

DJV_CMD(autocommit, "autocommit")
{
    return sqlite3_get_autocommit(main_handle()) ? "1" : "0";
}

DJV_CMD(fullobs, "fullobs")
{
    bool verbose = a.size() > 1 && a[1] == "verbose";
    bool was = g_wrap.trace;
    g_wrap.trace = false;
    g_mask_uuid = true;
    auto api = api_text();
    g_mask_uuid = false;
    auto uuid = safe([] { return hs(DB().uuid()); });
    auto tabs = raw_tables(main_handle());
    g_wrap.trace = was;
    std::string raw, per;
    for (auto& p : tabs)
    {
        raw += p.first + " " + p.second + "\n";
        per += (per.empty() ? "" : ",") + p.first + ":" + hs(p.second);
    }
    if (verbose)
    {
        // single line: newlines -> " | "
        std::string t = api + raw;
        std::string o;
        for (char ch : t) o += ch == '\n' ? std::string(" | ") : std::string(1, ch);
        return o;
    }
    return "api=" + hs(api) + " uuid=" + uuid + " raw=" + hs(raw) + " tables=" + per;
}

// Every read-only operation of database, crate and track, on every crate and
// track of the current state, each applied twice.
DJV_CMD(observers, "observers")
{
    std::map<std::string, obs_result> m;
    std::vector<std::string> order;
    auto handle = [] { return main_handle(); };
    bool was = g_wrap.trace;
    g_wrap.trace = false;
    std::string raw0 = raw_text(main_handle());
    auto crates = sorted_crates();
    auto tracks = sorted_tracks();
    g_wrap.trace = was;
    for (auto& ob : db_observers())
    {
        order.push_back(ob.first);
        monitor(m[ob.first], handle, ob.second);
    }
    for (auto& ob : crate_observers())
    {
        order.push_back(ob.first);
        auto& r = m[ob.first];
        for (auto& c : crates)
        {
            auto cc = c;
            monitor(r, handle, [&] { return ob.second(cc); });
        }
    }
    for (auto& ob : track_observers())
    {
        order.push_back(ob.first);
        auto& r = m[ob.first];
        for (auto& t : tracks)
        {
            auto tt = t;
            monitor(r, handle, [&] { return ob.second(tt); });
        }
    }
    // the handles held by the script (possibly of removed crates / tracks):
    // only the operations that are defined on a stale handle
    order.push_back("stale.is_valid");
    {
        auto& r = m["stale.is_valid"];
        for (auto& kv : S.crates)
        {
            auto cc = kv.second;
            monitor(r, handle, [&] { return std::string(cc.is_valid() ? "1" : "0") + std::to_string((long long)cc.id()); });
        }
        for (auto& kv : S.tracks)
        {
            auto tt = kv.second;
            monitor(r, handle, [&] { return std::string(tt.is_valid() ? "1" : "0") + std::to_string((long long)tt.id()); });
        }
    }
    g_wrap.trace = false;
    std::string raw1 = raw_text(main_handle());
    g_wrap.trace = was;
    return render(m, order) + " raw=" + (raw0 == raw1 ? "same" : "differs") +
           " n=" + std::to_string(crates.size()) + "+" + std::to_string(tracks.size());
}

// database_exists / load_database / engine_library::exists as observers of
// the directory (on-disk libraries).  The library's own handles stay open.
DJV_CMD(staticops, "staticops")
{
    if (S.dir.empty()) throw bad_command{"no directory"};
    std::map<std::string, obs_result> m;
    std::vector<std::string> order{"engine.database_exists", "engine.load_database", "engine.load_and_observe"};
    auto none = []() -> sqlite3* { return nullptr; };
    auto saved = g_wrap.handles;
    monitor(m["engine.database_exists"], none, [] { return std::string(e::database_exists(S.dir) ? "1" : "0"); });
    monitor(m["engine.load_database"], none,
            []
            {
                e::engine_schema sch{};
                auto db = e::load_database(S.dir, sch);
                return name_of(sch) + " " + hs(db.uuid());
            });
    monitor(m["engine.load_and_observe"], none,
            []
            {
                auto db = e::load_database(S.dir);
                std::string s = ids(cids(db.crates()), true) + ids(tids(db.tracks()), true);
                for (auto& t : db.tracks()) s += hs(wr_snapshot(t.snapshot()));
                db.verify();
                return s;
            });
    g_wrap.handles = saved;  // connections opened above are closed again
    return render(m, order);
}

// ---------------------------------------------------------------- 2.x table API
namespace
{
std::string otp(const std::optional<std::chrono::system_clock::time_point>& t) { return tp(t); }
std::string ostr(const std::optional<std::string>& s) { return so(s); }
template <class T>
std::string oi(const std::optional<T>& v)
{
    return v ? std::to_string((long long)*v) : "none";
}
std::string od(const std::optional<double>& v) { return fo(v); }
}  // namespace

DJV_CMD(tableapi_reads, "tableapi.reads")
{
    if (S.dir.empty() || !is_v2()) throw bad_command{"needs an on-disk 2.x library"};
    auto saved = g_wrap.handles;
    auto lib = ev2::engine_library::load(S.dir);
    // the connection just opened is the last captured handle
    sqlite3* h = (sqlite3*)g_wrap.handles.back();
    auto handle = [h] { return h; };
    std::map<std::string, obs_result> m;
    std::vector<std::string> order;
    auto add = [&](const char* name, const std::function<std::string()>& f)
    {
        if (!m.count(name)) order.push_back(name);
        monitor(m[name], handle, f);
    };
    bool was = g_wrap.trace;
    g_wrap.trace = false;
    std::string raw0 = raw_text(h);
    g_wrap.trace = was;
    auto tt = lib.track();
    auto pl = lib.playlist();
    auto pe = lib.playlist_entity();
    auto inf = lib.information();
    auto cl = lib.change_log();
    add("lib.verify", [&] { lib.verify(); return std::string("verified"); });
    add("lib.directory", [&] { return hs(lib.directory()); });
    add("lib.schema", [&] { return name_of(lib.schema()); });
    add("lib.exists", [&] { return std::string(ev2::engine_library::exists(S.dir) ? "1" : "0"); });
    add("lib.database", [&] { return ids(cids(lib.database().crates()), true); });
    add("information.get", [&] { auto r = inf.get(); return hs(r.uuid) + " " + std::to_string(r.schema_version_major) + "." + std::to_string(r.schema_version_minor) + "." + std::to_string(r.schema_version_patch); });
    add("change_log.all", [&] { return std::to_string(cl.all().size()); });
    add("change_log.after", [&] { return std::to_string(cl.after(0).size()); });
    add("change_log.last", [&] { auto r = cl.last(); return r ? std::to_string((long long)r->id) : std::string("none"); });
    add("playlist.all_ids", [&] { auto v = pl.all_ids(); return ids(std::vector<int64_t>(v.begin(), v.end()), true); });
    add("playlist.root_ids", [&] { auto v = pl.root_ids(); return ids(std::vector<int64_t>(v.begin(), v.end()), false); });
    add("playlist.find_ids", [&] { auto v = pl.find_ids("\x01none"); return ids(std::vector<int64_t>(v.begin(), v.end()), true); });
    add("playlist.find_root_id", [&] { return oi(pl.find_root_id("\x01none")); });
    std::vector<int64_t> pids;
    {
        g_wrap.trace = false;
        pids = pl.all_ids();
        g_wrap.trace = was;
        std::sort(pids.begin(), pids.end());
    }
    pids.push_back(987654321);
    for (auto id : pids)
    {
        add("playlist.exists", [&] { return std::string(pl.exists(id) ? "1" : "0"); });
        add("playlist.get", [&] { auto r = pl.get(id); return r ? hexstr(r->title) + " " + std::to_string((long long)r->parent_list_id) + " " + std::to_string((long long)r->next_list_id) : std::string("none"); });
        add("playlist.child_ids", [&] { auto v = pl.child_ids(id); return ids(std::vector<int64_t>(v.begin(), v.end()), false); });
        add("playlist.descendant_ids", [&] { auto v = pl.descendant_ids(id); return ids(std::vector<int64_t>(v.begin(), v.end()), true); });
        add("playlist.find_id", [&] { auto r = pl.get(id); return r ? oi(pl.find_id(r->parent_list_id, r->title)) : std::string("none"); });
        add("playlist.find_ids", [&] { auto r = pl.get(id); if (!r) return std::string("none"); auto v = pl.find_ids(r->title); return ids(std::vector<int64_t>(v.begin(), v.end()), true); });
        add("playlist.find_root_id", [&] { auto r = pl.get(id); return r ? oi(pl.find_root_id(r->title)) : std::string("none"); });
        add("playlist_entity.track_ids", [&] { auto v = pe.track_ids(id); return ids(std::vector<int64_t>(v.begin(), v.end()), false); });
        add("playlist_entity.get_for_list", [&] { return std::to_string(pe.get_for_list(id).size()); });
    }
    std::vector<int64_t> tidsv;
    {
        g_wrap.trace = false;
        tidsv = tt.all_ids();
        g_wrap.trace = was;
        std::sort(tidsv.begin(), tidsv.end());
    }
    add("track.all_ids", [&] { auto v = tt.all_ids(); return ids(std::vector<int64_t>(v.begin(), v.end()), true); });
    for (auto pid : pids)
        for (auto tid : tidsv)
            add("playlist_entity.get", [&] { auto r = pe.get(pid, tid); return r ? std::to_string((long long)r->id) : std::string("none"); });
    tidsv.push_back(987654321);
    for (auto id : tidsv)
    {
        add("track.exists", [&] { return std::string(tt.exists(id) ? "1" : "0"); });
        add("track.get", [&] { auto r = tt.get(id); return r ? hexstr(r->path) + " " + hexstr(r->filename) : std::string("none"); });
#define G(name, expr) add("track." #name, [&] { return expr; });
        G(get_play_order, oi(tt.get_play_order(id)))
        G(get_length, std::to_string((long long)tt.get_length(id)))
        G(get_bpm, oi(tt.get_bpm(id)))
        G(get_year, oi(tt.get_year(id)))
        G(get_path, hexstr(tt.get_path(id)))
        G(get_filename, hexstr(tt.get_filename(id)))
        G(get_bitrate, oi(tt.get_bitrate(id)))
        G(get_bpm_analyzed, od(tt.get_bpm_analyzed(id)))
        G(get_album_art_id, std::to_string((long long)tt.get_album_art_id(id)))
        G(get_file_bytes, oi(tt.get_file_bytes(id)))
        G(get_title, ostr(tt.get_title(id)))
        G(get_artist, ostr(tt.get_artist(id)))
        G(get_album, ostr(tt.get_album(id)))
        G(get_genre, ostr(tt.get_genre(id)))
        G(get_comment, ostr(tt.get_comment(id)))
        G(get_label, ostr(tt.get_label(id)))
        G(get_composer, ostr(tt.get_composer(id)))
        G(get_remixer, ostr(tt.get_remixer(id)))
        G(get_key, oi(tt.get_key(id)))
        G(get_rating, std::to_string((long long)tt.get_rating(id)))
        G(get_album_art, ostr(tt.get_album_art(id)))
        G(get_time_last_played, otp(tt.get_time_last_played(id)))
        G(get_is_played, std::string(tt.get_is_played(id) ? "1" : "0"))
        G(get_file_type, hexstr(tt.get_file_type(id)))
        G(get_is_analyzed, std::string(tt.get_is_analyzed(id) ? "1" : "0"))
        G(get_date_created, otp(tt.get_date_created(id)))
        G(get_date_added, otp(tt.get_date_added(id)))
        G(get_is_available, std::string(tt.get_is_available(id) ? "1" : "0"))
        G(get_is_metadata_of_packed_track_changed, std::string(tt.get_is_metadata_of_packed_track_changed(id) ? "1" : "0"))
        G(get_is_performance_data_of_packed_track_changed, std::string(tt.get_is_performance_data_of_packed_track_changed(id) ? "1" : "0"))
        G(get_played_indicator, oi(tt.get_played_indicator(id)))
        G(get_is_metadata_imported, std::string(tt.get_is_metadata_imported(id) ? "1" : "0"))
        G(get_pdb_import_key, std::to_string((long long)tt.get_pdb_import_key(id)))
        G(get_streaming_source, ostr(tt.get_streaming_source(id)))
        G(get_uri, ostr(tt.get_uri(id)))
        G(get_is_beat_grid_locked, std::string(tt.get_is_beat_grid_locked(id) ? "1" : "0"))
        G(get_origin_database_uuid, hs(tt.get_origin_database_uuid(id)))
        G(get_origin_track_id, std::to_string((long long)tt.get_origin_track_id(id)))
        G(get_track_data, hs(wr(tt.get_track_data(id))))
        G(get_overview_waveform_data, hs(wr(tt.get_overview_waveform_data(id))))
        G(get_beat_data, hs(wr(tt.get_beat_data(id))))
        G(get_quick_cues, hs(wr(tt.get_quick_cues(id))))
        G(get_loops, hs(wr(tt.get_loops(id))))
        G(get_third_party_source_id, oi(tt.get_third_party_source_id(id)))
        G(get_streaming_flags, std::to_string((long long)tt.get_streaming_flags(id)))
        G(get_explicit_lyrics, std::string(tt.get_explicit_lyrics(id) ? "1" : "0"))
        G(get_active_on_load_loops, oi(tt.get_active_on_load_loops(id)))
        G(get_last_edit_time, otp(std::make_optional(tt.get_last_edit_time(id))))
#undef G
    }
    g_wrap.trace = false;
    std::string raw1 = raw_text(h);
    g_wrap.trace = was;
    auto out = render(m, order) + " raw=" + (raw0 == raw1 ? "same" : "differs") + " n=" +
               std::to_string(pids.size() - 1) + "+" + std::to_string(tidsv.size() - 1);
    g_wrap.handles = saved;
    return out;
}
