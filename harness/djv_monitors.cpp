// Monitor commands for C14 (failure atomicity), C16 (observers are pure) and
// C10 (reopen): full self-observation of a library, the complete list of
// read-only operations, and the 2.x table API read functions.
//
//   autocommit                 -> 1|0   sqlite3_get_autocommit of the library's connection
//   fullobs [verbose]          -> api=<h> held=<h> uuid=<h> raw=<h> tables=<db.tbl:h,...>   (verbose: the texts;
//                                 api = every observer's answer on every crate / track obtained from the
//                                 database, UUID masked; held = the same through the handles the script holds)
//   observers [prefix]         -> one entry per read-only operation (of database, crate, track; on every
//                                 crate / track of the current state), each applied twice:
//                                 <name>:<shapes>:<changes-delta>:<stable 0|1>:<files same|differs|->
//                                 <shapes> = the distinct statement-kind sequences of one application,
//                                 '|'-separated, one letter per stepped statement (r read, w write, b begin,
//                                 c commit, k rollback, s savepoint; '-' = no statement)
//                                 plus raw=<same|differs> n=<crates>+<tracks> answers=<h>
//   tableapi.reads [prefix]    -> the same for the 2.x table API (on-disk 2.x libraries)
//   tableapi.touch <n>         -> table-API setters on the columns the high-level API never writes (every track)
//   tableapi.rmtrack           -> table-API removal of the member track with the largest id (memberships stay)
//   staticops                  -> database_exists / load_database / create_or_load_database (existing library)
//                                 / engine_library::exists as observers of the directory; the SHA-256 of the
//                                 directory is taken around every single one
//   dirsha                     -> SHA-256 over (relative name, size, content) of every file of the directory
//   reopen                     -> destroy every handle and the database, load_database(dir) again, re-obtain
//                                 the script's crate / track variables by id: <schema> crates=<n> tracks=<m>
//   c10.dir <N0|N|L|D|LD> <schema-1.x> <schema-2.x>
//                              -> a directory holding no library (N0: no directory at all), a 1.x library,
//                                 a 2.x library, or both, each written by the real creators and holding one
//                                 root crate ("L-marker" / "D-marker"); every handle closed afterwards
#include <algorithm>
#include <cxxabi.h>
#include <filesystem>
#include <fstream>
#include <functional>
#include <set>
#include <typeinfo>

#include <sqlite3.h>

#include <djinterop/djinterop.hpp>
#include <djinterop/engine/engine.hpp>
#include <djinterop/engine/v2/engine_library.hpp>

#include "djv.hpp"
#include "djv_state.hpp"
#include "djv_values.hpp"

using namespace djv;
using namespace djv::lib;
namespace dj = djinterop;
namespace e = djinterop::engine;
namespace ev2 = djinterop::engine::v2;

namespace
{
uint64_t fnv(const std::string& s)
{
    uint64_t h = 1469598103934665603ull;
    for (unsigned char c : s)
    {
        h ^= c;
        h *= 1099511628211ull;
    }
    return h;
}
std::string hs(const std::string& s) { return hex64(fnv(s)); }

// ---------------------------------------------------------------- SHA-256 (FIPS 180-4)
struct sha256
{
    uint32_t h[8] = {0x6a09e667, 0xbb67ae85, 0x3c6ef372, 0xa54ff53a, 0x510e527f, 0x9b05688c, 0x1f83d9ab, 0x5be0cd19};
    unsigned char buf[64];
    size_t nbuf = 0;
    uint64_t total = 0;
    static uint32_t rotr(uint32_t x, int n) { return (x >> n) | (x << (32 - n)); }
    void block(const unsigned char* p)
    {
        static const uint32_t K[64] = {
            0x428a2f98, 0x71374491, 0xb5c0fbcf, 0xe9b5dba5, 0x3956c25b, 0x59f111f1, 0x923f82a4, 0xab1c5ed5,
            0xd807aa98, 0x12835b01, 0x243185be, 0x550c7dc3, 0x72be5d74, 0x80deb1fe, 0x9bdc06a7, 0xc19bf174,
            0xe49b69c1, 0xefbe4786, 0x0fc19dc6, 0x240ca1cc, 0x2de92c6f, 0x4a7484aa, 0x5cb0a9dc, 0x76f988da,
            0x983e5152, 0xa831c66d, 0xb00327c8, 0xbf597fc7, 0xc6e00bf3, 0xd5a79147, 0x06ca6351, 0x14292967,
            0x27b70a85, 0x2e1b2138, 0x4d2c6dfc, 0x53380d13, 0x650a7354, 0x766a0abb, 0x81c2c92e, 0x92722c85,
            0xa2bfe8a1, 0xa81a664b, 0xc24b8b70, 0xc76c51a3, 0xd192e819, 0xd6990624, 0xf40e3585, 0x106aa070,
            0x19a4c116, 0x1e376c08, 0x2748774c, 0x34b0bcb5, 0x391c0cb3, 0x4ed8aa4a, 0x5b9cca4f, 0x682e6ff3,
            0x748f82ee, 0x78a5636f, 0x84c87814, 0x8cc70208, 0x90befffa, 0xa4506ceb, 0xbef9a3f7, 0xc67178f2};
        uint32_t w[64];
        for (int i = 0; i < 16; ++i)
            w[i] = ((uint32_t)p[4 * i] << 24) | ((uint32_t)p[4 * i + 1] << 16) | ((uint32_t)p[4 * i + 2] << 8) | p[4 * i + 3];
        for (int i = 16; i < 64; ++i)
        {
            uint32_t s0 = rotr(w[i - 15], 7) ^ rotr(w[i - 15], 18) ^ (w[i - 15] >> 3);
            uint32_t s1 = rotr(w[i - 2], 17) ^ rotr(w[i - 2], 19) ^ (w[i - 2] >> 10);
            w[i] = w[i - 16] + s0 + w[i - 7] + s1;
        }
        uint32_t a = h[0], b = h[1], c = h[2], d = h[3], e = h[4], f = h[5], g = h[6], hh = h[7];
        for (int i = 0; i < 64; ++i)
        {
            uint32_t S1 = rotr(e, 6) ^ rotr(e, 11) ^ rotr(e, 25);
            uint32_t ch = (e & f) ^ (~e & g);
            uint32_t t1 = hh + S1 + ch + K[i] + w[i];
            uint32_t S0 = rotr(a, 2) ^ rotr(a, 13) ^ rotr(a, 22);
            uint32_t mj = (a & b) ^ (a & c) ^ (b & c);
            uint32_t t2 = S0 + mj;
            hh = g; g = f; f = e; e = d + t1; d = c; c = b; b = a; a = t1 + t2;
        }
        h[0] += a; h[1] += b; h[2] += c; h[3] += d; h[4] += e; h[5] += f; h[6] += g; h[7] += hh;
    }
    void update(const void* data, size_t n)
    {
        auto* p = (const unsigned char*)data;
        total += n;
        while (n)
        {
            size_t k = std::min(n, sizeof buf - nbuf);
            memcpy(buf + nbuf, p, k);
            nbuf += k; p += k; n -= k;
            if (nbuf == 64) { block(buf); nbuf = 0; }
        }
    }
    std::string hex()
    {
        uint64_t bits = total * 8;
        unsigned char pad = 0x80;
        update(&pad, 1);
        unsigned char z = 0;
        while (nbuf != 56) update(&z, 1);
        unsigned char len[8];
        for (int i = 0; i < 8; ++i) len[i] = (unsigned char)(bits >> (56 - 8 * i));
        update(len, 8);
        std::string o;
        for (int i = 0; i < 8; ++i) o += hex64(h[i]).substr(8);
        return o;
    }
};

// SHA-256 over every regular file of the library directory: relative name, size, content
std::string dir_sha(size_t* nfiles = nullptr, uint64_t* nbytes = nullptr)
{
    namespace fs = std::filesystem;
    std::vector<std::string> files;
    if (fs::exists(S.dir))
        for (auto& p : fs::recursive_directory_iterator(S.dir))
            if (p.is_regular_file()) files.push_back(p.path().string());
    std::sort(files.begin(), files.end());
    sha256 sh;
    uint64_t bytes = 0;
    std::vector<char> buf(1 << 16);
    for (auto& f : files)
    {
        std::string rel = f.substr(S.dir.size());
        sh.update(rel.data(), rel.size() + 1);
        std::ifstream in(f, std::ios::binary);
        uint64_t sz = 0;
        while (in)
        {
            in.read(buf.data(), (std::streamsize)buf.size());
            auto n = in.gcount();
            sh.update(buf.data(), (size_t)n);
            sz += (uint64_t)n;
        }
        auto szs = std::to_string(sz);
        sh.update(szs.data(), szs.size() + 1);
        bytes += sz;
    }
    if (nfiles) *nfiles = files.size();
    if (nbytes) *nbytes = bytes;
    return sh.hex();
}
// the database UUID is random per created library: masked when observations of
// different libraries are compared (C14 retry), shown when the same library is
// observed twice (C10, C16)
bool g_mask_uuid = false;
std::string uuid_text(const std::string& u) { return g_mask_uuid ? std::string(u.empty() ? "empty" : "nonempty") : hs(u); }

std::string exn_name(const std::exception& ex)
{
    int st = 0;
    char* d = abi::__cxa_demangle(typeid(ex).name(), nullptr, nullptr, &st);
    std::string n = (st == 0 && d) ? d : typeid(ex).name();
    free(d);
    for (auto& c : n)
        if (c == ' ') c = '_';
    return n;
}

// run an observation; an exception is an answer like any other
std::string safe(const std::function<std::string()>& f)
{
    try
    {
        return f();
    }
    catch (const bad_command&)
    {
        throw;
    }
    catch (const std::exception& ex)
    {
        return "throw:" + exn_name(ex);
    }
}

std::string oc(const std::optional<dj::crate>& c) { return c ? std::to_string((long long)c->id()) : "none"; }

std::string dur(const std::optional<std::chrono::milliseconds>& d)
{
    return d ? std::to_string((long long)d->count()) : "none";
}
std::string keystr(const std::optional<dj::musical_key>& k) { return k ? std::to_string((int)*k) : "none"; }

using track_obs = std::pair<const char*, std::function<std::string(dj::track&)>>;
const std::vector<track_obs>& track_observers()
{
    static const std::vector<track_obs> v{
        {"track.id", [](dj::track& t) { return std::to_string((long long)t.id()); }},
        {"track.is_valid", [](dj::track& t) { return std::string(t.is_valid() ? "1" : "0"); }},
        {"track.snapshot", [](dj::track& t) { return wr_snapshot(t.snapshot()); }},
        {"track.album", [](dj::track& t) { return so(t.album()); }},
        {"track.artist", [](dj::track& t) { return so(t.artist()); }},
        {"track.average_loudness", [](dj::track& t) { return fo(t.average_loudness()); }},
        {"track.beatgrid", [](dj::track& t) { return wr_grid(t.beatgrid()); }},
        {"track.bitrate", [](dj::track& t) { return io_(t.bitrate()); }},
        {"track.bpm", [](dj::track& t) { return fo(t.bpm()); }},
        {"track.comment", [](dj::track& t) { return so(t.comment()); }},
        {"track.composer", [](dj::track& t) { return so(t.composer()); }},
        {"track.containing_crates", [](dj::track& t) { return ids(cids(t.containing_crates()), true); }},
        {"track.db", [](dj::track& t) { return t.db().uuid().empty() ? std::string("empty") : std::string("nonempty"); }},
        {"track.duration", [](dj::track& t) { return dur(t.duration()); }},
        {"track.file_extension", [](dj::track& t) { return hexstr(t.file_extension()); }},
        {"track.filename", [](dj::track& t) { return hexstr(t.filename()); }},
        {"track.genre", [](dj::track& t) { return so(t.genre()); }},
        {"track.hot_cues", [](dj::track& t) { return wr_cues(t.hot_cues()); }},
        {"track.hot_cue_at",
         [](dj::track& t)
         {
             // every valid slot (the slot count is read first: out-of-range slots are C15's subject)
             auto n = t.hot_cues().size();
             std::string s;
             for (size_t i = 0; i < n; ++i) s += wr_optcue(t.hot_cue_at((int)i)) + ";";
             return s;
         }},
        {"track.key", [](dj::track& t) { return keystr(t.key()); }},
        {"track.last_played_at", [](dj::track& t) { return tp(t.last_played_at()); }},
        {"track.loops", [](dj::track& t) { return wr_loops(t.loops()); }},
        {"track.loop_at",
         [](dj::track& t)
         {
             auto n = t.loops().size();
             std::string s;
             for (size_t i = 0; i < n; ++i) s += wr_optloop(t.loop_at((int)i)) + ";";
             return s;
         }},
        {"track.main_cue", [](dj::track& t) { return fo(t.main_cue()); }},
        {"track.publisher", [](dj::track& t) { return so(t.publisher()); }},
        {"track.rating", [](dj::track& t) { return io_(t.rating()); }},
        {"track.relative_path", [](dj::track& t) { return hexstr(t.relative_path()); }},
        {"track.sample_count", [](dj::track& t) { return uo_(t.sample_count()); }},
        {"track.sample_rate", [](dj::track& t) { return fo(t.sample_rate()); }},
        {"track.title", [](dj::track& t) { return so(t.title()); }},
        {"track.track_number", [](dj::track& t) { return io_(t.track_number()); }},
        {"track.waveform", [](dj::track& t) { return wr_wf(t.waveform()); }},
        {"track.year", [](dj::track& t) { return io_(t.year()); }},
        {"track.copy",
         [](dj::track& t)
         {
             dj::track t2 = t;
             dj::track t3 = t2;
             t3 = t;
             return std::to_string((long long)t3.id());
         }},
    };
    return v;
}

using crate_obs = std::pair<const char*, std::function<std::string(dj::crate&)>>;
const std::vector<crate_obs>& crate_observers()
{
    static const std::vector<crate_obs> v{
        {"crate.id", [](dj::crate& c) { return std::to_string((long long)c.id()); }},
        {"crate.is_valid", [](dj::crate& c) { return std::string(c.is_valid() ? "1" : "0"); }},
        {"crate.name", [](dj::crate& c) { return hexstr(c.name()); }},
        {"crate.parent", [](dj::crate& c) { return oc(c.parent()); }},
        {"crate.children", [](dj::crate& c) { return ids(cids(c.children()), !is_v2()); }},
        {"crate.descendants", [](dj::crate& c) { return ids(cids(c.descendants()), true); }},
        {"crate.tracks", [](dj::crate& c) { return ids(tids(c.tracks()), !is_v2()); }},
        {"crate.db", [](dj::crate& c) { return c.db().uuid().empty() ? std::string("empty") : std::string("nonempty"); }},
        {"crate.sub_crate_by_name",
         [](dj::crate& c)
         {
             // by the name of each child, and by a name no child has
             std::string s;
             for (auto& ch : c.children()) s += oc(c.sub_crate_by_name(ch.name())) + ",";
             s += oc(c.sub_crate_by_name("\x01no such crate"));
             return s;
         }},
        {"crate.copy",
         [](dj::crate& c)
         {
             dj::crate c2 = c;
             dj::crate c3 = c2;
             c3 = c;
             return std::to_string((long long)c3.id());
         }},
    };
    return v;
}

std::vector<dj::crate> sorted_crates()
{
    auto all = DB().crates();
    std::sort(all.begin(), all.end(), [](const dj::crate& x, const dj::crate& y) { return x.id() < y.id(); });
    return all;
}
std::vector<dj::track> sorted_tracks()
{
    auto ts = DB().tracks();
    std::sort(ts.begin(), ts.end(), [](const dj::track& x, const dj::track& y) { return x.id() < y.id(); });
    return ts;
}

using db_obs = std::pair<const char*, std::function<std::string()>>;
const std::vector<db_obs>& db_observers()
{
    static const std::vector<db_obs> v{
        {"db.crates", [] { return ids(cids(DB().crates()), true); }},
        {"db.root_crates", [] { return ids(cids(DB().root_crates()), !is_v2()); }},
        {"db.tracks", [] { return ids(tids(DB().tracks()), true); }},
        {"db.crate_by_id",
         []
         {
             std::string s;
             for (auto& c : sorted_crates()) s += oc(DB().crate_by_id(c.id())) + ",";
             return s + oc(DB().crate_by_id(987654321)) + "," + oc(DB().crate_by_id(0)) + "," + oc(DB().crate_by_id(-1));
         }},
        {"db.track_by_id",
         []
         {
             std::string s;
             for (auto& t : sorted_tracks())
             {
                 auto r = DB().track_by_id(t.id());
                 s += (r ? std::to_string((long long)r->id()) : std::string("none")) + ",";
             }
             auto r = DB().track_by_id(987654321);
             return s + (r ? "some" : "none");
         }},
        {"db.crates_by_name",
         []
         {
             std::string s;
             std::set<std::string> names;
             for (auto& c : sorted_crates()) names.insert(c.name());
             for (auto& n : names) s += ids(cids(DB().crates_by_name(n)), true);
             return s + ids(cids(DB().crates_by_name("\x01no such crate")), true);
         }},
        {"db.root_crate_by_name",
         []
         {
             std::string s;
             std::set<std::string> names;
             for (auto& c : sorted_crates()) names.insert(c.name());
             for (auto& n : names) s += oc(DB().root_crate_by_name(n)) + ",";
             return s + oc(DB().root_crate_by_name("\x01no such crate"));
         }},
        {"db.tracks_by_relative_path",
         []
         {
             std::string s;
             std::set<std::string> paths;
             for (auto& t : sorted_tracks()) paths.insert(t.relative_path());
             for (auto& p : paths) s += ids(tids(DB().tracks_by_relative_path(p)), true);
             return s + ids(tids(DB().tracks_by_relative_path("\x01no/such/path.mp3")), true);
         }},
        {"db.uuid", [] { return uuid_text(DB().uuid()); }},
        {"db.version_name", [] { return hexstr(DB().version_name()); }},
        {"db.directory",
         []
         {
             // masked (like the uuid) when observations of different libraries are compared
             if (g_mask_uuid) return std::string(DB().directory() == (S.dir.empty() ? ":memory:" : S.dir) ? "as-given" : "other");
             return hs(DB().directory());
         }},
        {"db.verify",
         []
         {
             DB().verify();
             return std::string("verified");
         }},
        {"db.copy",
         []
         {
             dj::database d2 = DB();
             dj::database d3 = d2;
             d3 = DB();
             return uuid_text(d3.uuid());
         }},
    };
    return v;
}

// ---------------------------------------------------------------- observation texts
std::string api_text()
{
    std::string o;
    for (auto& ob : db_observers()) o += std::string(ob.first) + "=" + safe(ob.second) + "\n";
    for (auto& c : sorted_crates())
    {
        o += "crate " + std::to_string((long long)c.id()) + ":";
        for (auto& ob : crate_observers())
        {
            auto cc = c;
            o += std::string(" ") + ob.first + "=" + safe([&] { return ob.second(cc); });
        }
        o += "\n";
    }
    for (auto& t : sorted_tracks())
    {
        o += "track " + std::to_string((long long)t.id()) + ":";
        for (auto& ob : track_observers())
        {
            auto tt = t;
            o += std::string(" ") + ob.first + "=" + safe([&] { return ob.second(tt); });
        }
        o += "\n";
    }
    return o;
}

std::string held_text()
{
    std::string o;
    // through the handles the script itself holds (the very objects the calls of
    // the history were made on — state kept in a handle shows here and nowhere
    // else); handles of removed crates / tracks are skipped
    for (auto& kv : S.crates)
    {
        auto& c = kv.second;
        if (safe([&] { return std::string(c.is_valid() ? "1" : "0"); }) != "1") continue;
        o += "held crate " + kv.first + ":";
        for (auto& ob : crate_observers()) o += std::string(" ") + ob.first + "=" + safe([&] { return ob.second(c); });
        o += "\n";
    }
    for (auto& kv : S.tracks)
    {
        auto& t = kv.second;
        if (safe([&] { return std::string(t.is_valid() ? "1" : "0"); }) != "1") continue;
        o += "held track " + kv.first + ":";
        for (auto& ob : track_observers()) o += std::string(" ") + ob.first + "=" + safe([&] { return ob.second(t); });
        o += "\n";
    }
    return o;
}

// raw dump of every table of every attached database, through the C API
std::vector<std::pair<std::string, std::string>> raw_tables(sqlite3* h)
{
    std::vector<std::pair<std::string, std::string>> out;
    std::vector<std::string> dbs;
    {
        sqlite3_stmt* st = nullptr;
        if (sqlite3_prepare_v2(h, "PRAGMA database_list", -1, &st, nullptr) != SQLITE_OK)
            throw bad_command{"database_list"};
        while (sqlite3_step(st) == SQLITE_ROW) dbs.push_back((const char*)sqlite3_column_text(st, 1));
        sqlite3_finalize(st);
    }
    for (auto& d : dbs)
    {
        std::vector<std::string> tbls;
        sqlite3_stmt* st = nullptr;
        std::string q = "SELECT name FROM \"" + d + "\".sqlite_master WHERE type = 'table' ORDER BY name";
        if (sqlite3_prepare_v2(h, q.c_str(), -1, &st, nullptr) != SQLITE_OK) continue;
        while (sqlite3_step(st) == SQLITE_ROW) tbls.push_back((const char*)sqlite3_column_text(st, 0));
        sqlite3_finalize(st);
        for (auto& t : tbls)
            out.emplace_back(d + "." + t, raw_query(h, "SELECT * FROM \"" + d + "\".\"" + t + "\""));
    }
    return out;
}

std::string raw_text(sqlite3* h)
{
    std::string s;
    for (auto& p : raw_tables(h)) s += p.first + " " + p.second + "\n";
    return s;
}

struct trace_guard
{
    bool old;
    std::vector<std::string> saved;
    trace_guard() : old(g_wrap.trace), saved(g_wrap.trace_lines)
    {
        g_wrap.trace = true;
        g_wrap.trace_lines.clear();
    }
    ~trace_guard()
    {
        g_wrap.trace = old;
        g_wrap.trace_lines = saved;
    }
};

// tracing off while the harness itself reads (sorted_crates, raw dumps, ...)
struct quiet_guard
{
    bool old;
    quiet_guard() : old(g_wrap.trace) { g_wrap.trace = false; }
    ~quiet_guard() { g_wrap.trace = old; }
};

// connections opened (and closed again) inside a command are forgotten when it
// ends, also when it ends by an exception
struct handles_guard
{
    std::vector<void*> saved;
    handles_guard() : saved(g_wrap.handles) {}
    ~handles_guard() { g_wrap.handles = saved; }
};

char kind_letter(const std::string& k)
{
    if (k.rfind("read", 0) == 0) return 'r';
    if (k.rfind("write", 0) == 0) return 'w';
    if (k.rfind("begin", 0) == 0) return 'b';
    if (k.rfind("commit", 0) == 0) return 'c';
    if (k.rfind("rollback", 0) == 0) return 'k';
    if (k.rfind("savepoint", 0) == 0) return 's';
    return '?';
}

// one observer, applied twice, monitored
struct obs_result
{
    std::string answers;  // first answers
    bool stable = true;
    std::set<std::string> shapes;  // distinct statement-kind sequences of one application
    long changes = 0;
    int files = -1;  // -1 not checked, 1 same, 0 differs
};

std::string traced(const std::function<std::string()>& f, std::string& shape)
{
    trace_guard g;
    auto a = safe(f);
    for (auto& k : g_wrap.trace_lines) shape.push_back(kind_letter(k));
    return a;
}

void monitor(obs_result& r, const std::function<sqlite3*()>& handle, const std::function<std::string()>& f,
             bool check_files = false)
{
    sqlite3* h = handle();
    long c0 = h ? sqlite3_total_changes(h) : 0;
    std::string sha0 = check_files ? dir_sha() : std::string();
    std::string s1, s2;
    std::string a1 = traced(f, s1);
    std::string a2 = traced(f, s2);
    r.shapes.insert(s1.empty() ? "-" : s1);
    r.shapes.insert(s2.empty() ? "-" : s2);
    h = handle();
    long c1 = h ? sqlite3_total_changes(h) : 0;
    r.changes += c1 - c0;
    if (a1 != a2) r.stable = false;
    r.answers += a1 + "\x1f";
    if (check_files)
    {
        bool same = dir_sha() == sha0;
        r.files = (r.files == 0 || !same) ? 0 : 1;
    }
}

std::string render(const std::map<std::string, obs_result>& m, const std::vector<std::string>& order)
{
    std::string o, all;
    for (auto& n : order)
    {
        auto& r = m.at(n);
        std::string k;
        for (auto& x : r.shapes) k += (k.empty() ? "" : "|") + x;
        if (k.empty()) k = "none";  // not applied at all (no crate / track in this state)
        o += n + ":" + k + ":" + std::to_string(r.changes) + ":" + (r.stable ? "1" : "0") + ":" +
             (r.files < 0 ? "-" : r.files ? "same" : "differs") + " ";
        all += n + "=" + r.answers + "\n";
    }
    return o + "answers=" + hs(all);
}

bool selected(const args_t& a, const std::string& name)
{
    return a.size() < 2 || name.rfind(a[1], 0) == 0;
}
}  // namespace

DJV_CMD(autocommit, "autocommit")
{
    return sqlite3_get_autocommit(main_handle()) ? "1" : "0";
}

DJV_CMD(fullobs, "fullobs")
{
    bool verbose = a.size() > 1 && a[1] == "verbose";
    std::string api, held, uuid;
    std::vector<std::pair<std::string, std::string>> tabs;
    {
        quiet_guard q;
        g_mask_uuid = true;
        api = api_text();
        held = held_text();
        g_mask_uuid = false;
        uuid = safe([] { return hs(DB().uuid()); });
        tabs = raw_tables(main_handle());
    }
    std::string raw, per;
    for (auto& p : tabs)
    {
        raw += p.first + " " + p.second + "\n";
        per += (per.empty() ? "" : ",") + p.first + ":" + hs(p.second);
    }
    if (verbose)
    {
        // single line: newlines -> " | "
        std::string t = api + held + raw;
        std::string o;
        for (char ch : t) o += ch == '\n' ? std::string(" | ") : std::string(1, ch);
        return o;
    }
    return "api=" + hs(api) + " held=" + hs(held) + " uuid=" + uuid + " raw=" + hs(raw) + " tables=" + per;
}

DJV_CMD(dirsha, "dirsha")
{
    if (S.dir.empty()) throw bad_command{"no directory"};
    size_t n = 0;
    uint64_t b = 0;
    auto h = dir_sha(&n, &b);
    return h + " files=" + std::to_string(n) + " bytes=" + std::to_string((unsigned long long)b);
}

// Every read-only operation of database, crate and track, on every crate and
// track of the current state, each applied twice.
DJV_CMD(observers, "observers")
{
    std::map<std::string, obs_result> m;
    std::vector<std::string> order;
    auto handle = [] { return main_handle(); };
    std::string raw0;
    std::vector<dj::crate> crates;
    std::vector<dj::track> tracks;
    {
        quiet_guard q;
        raw0 = raw_text(main_handle());
        crates = sorted_crates();
        tracks = sorted_tracks();
    }
    for (auto& ob : db_observers())
    {
        if (!selected(a, ob.first)) continue;
        order.push_back(ob.first);
        monitor(m[ob.first], handle, ob.second);
    }
    for (auto& ob : crate_observers())
    {
        if (!selected(a, ob.first)) continue;
        order.push_back(ob.first);
        auto& r = m[ob.first];
        for (auto& c : crates)
        {
            auto cc = c;
            monitor(r, handle, [&] { return ob.second(cc); });
        }
    }
    for (auto& ob : track_observers())
    {
        if (!selected(a, ob.first)) continue;
        order.push_back(ob.first);
        auto& r = m[ob.first];
        for (auto& t : tracks)
        {
            auto tt = t;
            monitor(r, handle, [&] { return ob.second(tt); });
        }
    }
    // the handles held by the script (possibly of removed crates / tracks):
    // only the operations that are defined on a stale handle
    if (selected(a, "stale.is_valid"))
    {
        order.push_back("stale.is_valid");
        auto& r = m["stale.is_valid"];
        for (auto& kv : S.crates)
        {
            auto cc = kv.second;
            monitor(r, handle, [&] { return std::string(cc.is_valid() ? "1" : "0") + std::to_string((long long)cc.id()); });
        }
        for (auto& kv : S.tracks)
        {
            auto tt = kv.second;
            monitor(r, handle, [&] { return std::string(tt.is_valid() ? "1" : "0") + std::to_string((long long)tt.id()); });
        }
    }
    std::string raw1;
    {
        quiet_guard q;
        raw1 = raw_text(main_handle());
    }
    return render(m, order) + " raw=" + (raw0 == raw1 ? "same" : "differs") +
           " n=" + std::to_string(crates.size()) + "+" + std::to_string(tracks.size());
}

// database_exists / load_database / create_or_load_database (on the existing
// library) / engine_library::exists as observers of the directory (on-disk
// libraries).  The library's own handles stay open.
DJV_CMD(staticops, "staticops")
{
    if (S.dir.empty()) throw bad_command{"no directory"};
    std::map<std::string, obs_result> m;
    std::vector<std::string> order;
    auto none = []() -> sqlite3* { return nullptr; };
    handles_guard hg;  // connections opened below are closed again
    auto add = [&](const char* name, const std::function<std::string()>& f)
    {
        if (!selected(a, name)) return;
        order.push_back(name);
        monitor(m[name], none, f, true);
    };
    add("engine.database_exists", [] { return std::string(e::database_exists(S.dir) ? "1" : "0"); });
    add("engine.load_database",
        []
        {
            e::engine_schema sch{};
            auto db = e::load_database(S.dir, sch);
            return name_of(sch) + " " + hs(db.uuid());
        });
    add("engine.load_and_observe",
        []
        {
            auto db = e::load_database(S.dir);
            std::string s = ids(cids(db.crates()), true) + ids(tids(db.tracks()), true);
            for (auto& t : db.tracks()) s += hs(wr_snapshot(t.snapshot()));
            for (auto& c : db.crates()) s += hexstr(c.name()) + ids(tids(c.tracks()), true);
            db.verify();
            return s;
        });
    add("engine.create_or_load_database(existing)",
        []
        {
            bool created = true;
            e::engine_schema sch{};
            // the requested schema is of the other generation: must be ignored
            auto req = is_v2() ? e::engine_schema::schema_1_18_0_os : e::engine_schema::schema_2_21_2;
            auto db = e::create_or_load_database(S.dir, req, created, sch);
            return std::string(created ? "created " : "loaded ") + name_of(sch) + " " + hs(db.uuid());
        });
    if (is_v2())
        add("engine_library.exists", [] { return std::string(ev2::engine_library::exists(S.dir) ? "1" : "0"); });
    return render(m, order);
}

DJV_CMD(reopen, "reopen")
{
    if (S.dir.empty()) throw bad_command{"no directory"};
    std::map<std::string, int64_t> cid, tid;
    for (auto& kv : S.crates) cid[kv.first] = kv.second.id();
    for (auto& kv : S.tracks) tid[kv.first] = kv.second.id();
    // every per-field getter of every track (those tracks() lists and those a script variable holds), asked through
    // the handles that exist BEFORE closing ...
    std::map<int64_t, std::string> gbefore;
    {
        quiet_guard qg;
        // the track the last call went through is asked FIRST, before anything else is read (what a call left
        // behind in an object shared by all handles is most likely to be about that track), then the other
        // handles held, then the tracks only tracks() knows
        auto lt = S.tracks.find(S.last_track);
        if (lt != S.tracks.end()) gbefore.emplace(lt->second.id(), track_getters_text(lt->second));
        for (auto& kv : S.tracks)
            if (!gbefore.count(kv.second.id())) gbefore.emplace(kv.second.id(), track_getters_text(kv.second));
        try
        {
            for (auto& t : DB().tracks())
                if (!gbefore.count(t.id())) gbefore.emplace(t.id(), track_getters_text(t));
        }
        catch (const std::exception&)
        {
        }
    }
    reset_all();
    e::engine_schema loaded{};
    S.db = e::load_database(S.dir, loaded);
    S.schema = name_of(loaded);
    size_t nc = 0, nt = 0;
    quiet_guard q;
    // ... and through handles obtained from the library loaded again (a removed track has no handle afterwards:
    // its getters all threw before, which is the text compared against)
    std::string gdiff;
    for (auto& kv : gbefore)
    {
        std::string after;
        if (auto t = DB().track_by_id(kv.first)) after = track_getters_text(*t);
        else
        {
            // no such track after loading: before closing every getter of the stale handle must have thrown
            if (kv.second.find("valid=1") == std::string::npos) continue;
            after = "(no track of this id after loading)";
        }
        if (after != kv.second && gdiff.empty())
        {
            // first differing field
            size_t i = 0;
            while (i < after.size() && i < kv.second.size() && after[i] == kv.second[i]) ++i;
            size_t st = kv.second.rfind(' ', i);
            if (st == std::string::npos) st = 0;
            gdiff = " GETTERS-DIFFER track " + std::to_string((long long)kv.first) + " before:" +
                    kv.second.substr(st, 160) + " after:" + (st < after.size() ? after.substr(st, 160) : after);
        }
    }
    for (auto& kv : cid)
        if (auto c = DB().crate_by_id(kv.second))
        {
            put_crate(kv.first, *c);
            ++nc;
        }
    for (auto& kv : tid)
        if (auto t = DB().track_by_id(kv.second))
        {
            put_track(kv.first, *t);
            ++nt;
        }
    return S.schema + " crates=" + std::to_string(nc) + " tracks=" + std::to_string(nt) + gdiff;
}

// load2: every handle released, then the 2.x loader of its own (engine::v2::engine_library::load) instead of
// load_database: <schema of the library it gives>
DJV_CMD(load2, "load2")
{
    if (S.dir.empty()) throw bad_command{"no directory"};
    reset_all();
    auto lib = ev2::engine_library::load(S.dir);
    S.db = lib.database();
    S.schema = name_of(lib.schema());
    return S.schema;
}

DJV_CMD(c10_dir, "c10.dir")
{
    const std::string& pres = a.at(1);
    auto s1 = schema_of(a.at(2));
    auto s2 = schema_of(a.at(3));
    reset_all();
    S.dir = new_dir() + "/lib";
    S.disk = true;
    S.schema = "";
    if (pres != "N0") std::filesystem::create_directories(S.dir);
    if (pres.find('L') != std::string::npos)
    {
        auto db = e::create_database(S.dir, s1);
        db.create_root_crate("L-marker");
    }
    if (pres.find('D') != std::string::npos)
    {
        auto db = e::create_database(S.dir, s2);
        db.create_root_crate("D-marker");
    }
    g_wrap.handles.clear();
    return "";
}

// ---------------------------------------------------------------- directory shapes (C16, C10)
// c16.probe <shape> <entry> <schema-1.x> <schema-2.x>
//   <shape> = N0 (no directory at all) or three letters <m><p><d>:
//       m : m.db            a absent | v valid (1.x library of <schema-1.x>, one root crate) | z zero bytes | g garbage
//       p : p.db            a | v | z | g
//       d : Database2/      a absent | e present and empty | v Database2/m.db valid (2.x library of <schema-2.x>,
//                           one root crate) | z zero bytes | g garbage
//   <entry> = a static entry point that takes a directory (see dir_entries below); it is applied twice, every
//   object it returns is destroyed again; around the two applications a recursive listing of the directory
//   (every directory and file, size, SHA-256) is taken.
//   -> before=<h> after=<h> a1=<answer> a2=<answer> | <listing before> | <listing after>
// c16.entries -> the names of the entry points, comma separated
namespace
{
namespace fs = std::filesystem;

std::string file_sha(const std::string& path, uint64_t* size)
{
    sha256 sh;
    std::ifstream in(path, std::ios::binary);
    std::vector<char> buf(1 << 16);
    uint64_t sz = 0;
    while (in)
    {
        in.read(buf.data(), (std::streamsize)buf.size());
        auto n = in.gcount();
        sh.update(buf.data(), (size_t)n);
        sz += (uint64_t)n;
    }
    if (size) *size = sz;
    return sh.hex();
}

// every directory and file below `dir`, sorted: "<rel>/" for a directory, "<rel>:<size>:<sha256 prefix>" for a file
std::string dir_listing(const std::string& dir)
{
    if (!fs::exists(dir)) return "(no directory)";
    std::vector<std::string> items;
    for (auto& p : fs::recursive_directory_iterator(dir))
    {
        std::string rel = p.path().string().substr(dir.size() + 1);
        if (p.is_directory())
            items.push_back(rel + "/");
        else
        {
            uint64_t sz = 0;
            auto h = file_sha(p.path().string(), &sz);
            items.push_back(rel + ":" + std::to_string((unsigned long long)sz) + ":" + h.substr(0, 16));
        }
    }
    std::sort(items.begin(), items.end());
    std::string o;
    for (auto& i : items) o += (o.empty() ? "" : ",") + i;
    return o.empty() ? "(empty)" : o;
}

void write_file(const std::string& path, const std::string& content)
{
    std::ofstream out(path, std::ios::binary | std::ios::trunc);
    out.write(content.data(), (std::streamsize)content.size());
}

std::string garbage_bytes()
{
    std::string g = "this is not an SQLite database file; ";
    while (g.size() < 5000) g += g;
    return g.substr(0, 4099);
}

// templates written by the real creators, once per (process, schema)
const std::string& template_dir(e::engine_schema sch, const char* marker)
{
    static std::map<std::string, std::string> made;
    auto key = name_of(sch);
    auto it = made.find(key);
    if (it != made.end()) return it->second;
    auto d = new_dir() + "/tmpl";
    fs::create_directories(d);
    {
        auto db = e::create_database(d, sch);
        auto c = db.create_root_crate(marker);
        dj::track_snapshot ts;
        ts.relative_path = std::string("../music/") + marker + ".mp3";
        ts.title = std::string(marker);
        auto t = db.create_track(ts);
        c.add_track(t);
    }
    g_wrap.handles.clear();
    return made.emplace(key, d).first->second;
}

void place(const std::string& dst, char how, const std::string& valid_src)
{
    switch (how)
    {
        case 'a': break;
        case 'v': fs::copy_file(valid_src, dst); break;
        case 'z': write_file(dst, ""); break;
        case 'g': write_file(dst, garbage_bytes()); break;
        default: throw bad_command{"shape letter"};
    }
}

std::string crates_and_tracks(dj::database db)
{
    std::string s = ids(cids(db.crates()), true) + ids(tids(db.tracks()), true);
    for (auto& t : db.tracks()) s += hs(wr_snapshot(t.snapshot()));
    for (auto& c : db.crates()) s += hexstr(c.name()) + ids(tids(c.tracks()), true);
    db.verify();
    return s + " " + hs(db.uuid()) + " " + hexstr(db.version_name());
}

using dir_entry = std::pair<const char*, std::function<std::string(const std::string&)>>;
const std::vector<dir_entry>& dir_entries()
{
    static const std::vector<dir_entry> v{
        {"engine.database_exists", [](const std::string& d) { return std::string(e::database_exists(d) ? "1" : "0"); }},
        {"engine.load_database",
         [](const std::string& d)
         {
             e::engine_schema sch{};
             auto db = e::load_database(d, sch);
             return "loaded " + name_of(sch);
         }},
        {"engine.load_database(1-arg)",
         [](const std::string& d)
         {
             auto db = e::load_database(d);
             return std::string("loaded");
         }},
        {"engine.load_and_observe", [](const std::string& d) { return crates_and_tracks(e::load_database(d)); }},
        {"engine.create_or_load_database(1.x)",
         [](const std::string& d)
         {
             bool created = false;
             e::engine_schema sch{};
             auto db = e::create_or_load_database(d, e::engine_schema::schema_1_18_0_os, created, sch);
             return std::string(created ? "created" : "loaded " + name_of(sch));
         }},
        {"engine.create_or_load_database(2.x)",
         [](const std::string& d)
         {
             bool created = false;
             e::engine_schema sch{};
             auto db = e::create_or_load_database(d, e::engine_schema::schema_2_21_2, created, sch);
             return std::string(created ? "created" : "loaded " + name_of(sch));
         }},
        {"engine.create_or_load_database(3-arg)",
         [](const std::string& d)
         {
             bool created = false;
             auto db = e::create_or_load_database(d, e::engine_schema::schema_2_21_2, created);
             return std::string(created ? "created" : "loaded");
         }},
        {"v2.engine_library.exists", [](const std::string& d) { return std::string(ev2::engine_library::exists(d) ? "1" : "0"); }},
        {"v2.engine_library.load",
         [](const std::string& d)
         {
             auto lib = ev2::engine_library::load(d);
             return "loaded " + name_of(lib.schema());
         }},
        {"v2.engine_library.load_and_observe",
         [](const std::string& d)
         {
             auto lib = ev2::engine_library::load(d);
             lib.verify();
             auto inf = lib.information().get();
             auto n = lib.track().all_ids().size() + lib.playlist().all_ids().size();
             return "loaded " + name_of(lib.schema()) + " " + lib.directory().substr(lib.directory().size() - 3) + " " +
                    hs(inf.uuid) + " " + std::to_string(n) + " " + crates_and_tracks(lib.database());
         }},
    };
    return v;
}
}  // namespace

DJV_CMD(c16_entries, "c16.entries")
{
    std::string o;
    for (auto& en : dir_entries()) o += (o.empty() ? "" : ",") + std::string(en.first);
    return o;
}

// c16.list -> recursive listing of the current library directory (directories, files with size and SHA-256)
DJV_CMD(c16_list, "c16.list")
{
    if (S.dir.empty()) throw bad_command{"no directory"};
    return dir_listing(S.dir);
}

DJV_CMD(c16_probe, "c16.probe")
{
    const std::string& shape = a.at(1);
    const std::string& entry = a.at(2);
    auto s1 = schema_of(a.at(3));
    auto s2 = schema_of(a.at(4));
    const dir_entry* en = nullptr;
    for (auto& x : dir_entries())
        if (entry == x.first) en = &x;
    if (!en) throw bad_command{"entry"};
    reset_all();
    handles_guard hg;
    quiet_guard q;
    std::string dir = new_dir() + "/lib";
    if (shape != "N0")
    {
        if (shape.size() != 3) throw bad_command{"shape"};
        const auto& t1 = template_dir(s1, "L-marker");
        const auto& t2 = template_dir(s2, "D-marker");
        fs::create_directories(dir);
        place(dir + "/m.db", shape[0], t1 + "/m.db");
        place(dir + "/p.db", shape[1], t1 + "/p.db");
        if (shape[2] != 'a')
        {
            fs::create_directories(dir + "/Database2");
            if (shape[2] != 'e') place(dir + "/Database2/m.db", shape[2], t2 + "/Database2/m.db");
        }
    }
    auto l0 = dir_listing(dir);
    auto a1 = safe([&] { return en->second(dir); });
    auto a2 = safe([&] { return en->second(dir); });
    auto l1 = dir_listing(dir);
    for (auto& c : a1)
        if (c == ' ') c = '_';
    for (auto& c : a2)
        if (c == ' ') c = '_';
    return "before=" + hs(l0) + " after=" + hs(l1) + " a1=" + a1 + " a2=" + a2 + " | " + l0 + " | " + l1;
}

// ---------------------------------------------------------------- 2.x table API
namespace
{
std::string otp(const std::optional<std::chrono::system_clock::time_point>& t) { return tp(t); }
std::string ostr(const std::optional<std::string>& s) { return so(s); }
template <class T>
std::string oi(const std::optional<T>& v)
{
    return v ? std::to_string((long long)*v) : "none";
}
std::string od(const std::optional<double>& v) { return fo(v); }
}  // namespace

// tableapi.touch <n>: through the table API of the on-disk 2.x library, give every track values in the columns
// the high-level API never writes (label, remixer, uri, streaming source, played flags, ...), derived from <n>,
// so that the table-API getters are observed on non-default rows too.
DJV_CMD(tableapi_touch, "tableapi.touch")
{
    if (S.dir.empty() || !is_v2()) throw bad_command{"needs an on-disk 2.x library"};
    auto n = parse_i64(a.at(1));
    handles_guard hg;
    quiet_guard q;
    auto lib = ev2::engine_library::load(S.dir);
    auto tt = lib.track();
    size_t touched = 0;
    for (auto id : tt.all_ids())
    {
        auto k = n + id;
        tt.set_label(id, k % 3 ? std::make_optional("label " + std::to_string(k)) : std::nullopt);
        tt.set_remixer(id, k % 2 ? std::make_optional("remixer " + std::to_string(k)) : std::nullopt);
        tt.set_uri(id, k % 4 ? std::make_optional("file:///music/" + std::to_string(k) + ".mp3") : std::nullopt);
        tt.set_streaming_source(id, k % 5 ? std::nullopt : std::make_optional(std::string("svc")));
        tt.set_album_art(id, k % 2 ? std::make_optional("art" + std::to_string(k)) : std::nullopt);
        tt.set_is_played(id, k % 2 == 0);
        tt.set_played_indicator(id, k % 3 ? std::make_optional<int64_t>(k * 7919) : std::nullopt);
        tt.set_is_available(id, k % 4 != 0);
        tt.set_is_beat_grid_locked(id, k % 3 == 0);
        tt.set_pdb_import_key(id, k % 7);
        tt.set_third_party_source_id(id, k % 3 == 1 ? std::make_optional<int64_t>(k) : std::nullopt);
        tt.set_streaming_flags(id, k % 4);
        tt.set_explicit_lyrics(id, k % 2 == 1);
        tt.set_time_last_played(id, k % 2 ? std::make_optional(std::chrono::system_clock::time_point{std::chrono::seconds{1600000000 + k}})
                                          : std::nullopt);
        ++touched;
    }
    return "tracks=" + std::to_string(touched);
}

// tableapi.rmtrack: through the table API of the on-disk 2.x library, remove the Track row of the member track
// with the largest id (track_table::remove does not look at memberships: the PlaylistEntity rows naming the
// track stay behind) - a state the public API reaches only by mixing its two levels.
DJV_CMD(tableapi_rmtrack, "tableapi.rmtrack")
{
    if (S.dir.empty() || !is_v2()) throw bad_command{"needs an on-disk 2.x library"};
    handles_guard hg;
    quiet_guard q;
    auto lib = ev2::engine_library::load(S.dir);
    auto tt = lib.track();
    auto pe = lib.playlist_entity();
    auto pl = lib.playlist();
    int64_t victim = 0;
    for (auto list_id : pl.all_ids())
        for (auto& row : pe.get_for_list(list_id))
            if (row.track_id > victim && tt.exists(row.track_id)) victim = row.track_id;
    if (victim == 0) return "none";
    tt.remove(victim);
    return "removed=" + std::to_string(victim);
}

DJV_CMD(tableapi_reads, "tableapi.reads")
{
    if (S.dir.empty() || !is_v2()) throw bad_command{"needs an on-disk 2.x library"};
    handles_guard hg;
    auto lib = ev2::engine_library::load(S.dir);
    // the connection just opened is the last captured handle
    sqlite3* h = (sqlite3*)g_wrap.handles.back();
    auto handle = [h] { return h; };
    std::map<std::string, obs_result> m;
    std::vector<std::string> order;
    auto add = [&](const char* name, const std::function<std::string()>& f)
    {
        if (!selected(a, name)) return;
        if (!m.count(name)) order.push_back(name);
        monitor(m[name], handle, f);
    };
    std::string raw0;
    {
        quiet_guard q;
        raw0 = raw_text(h);
    }
    auto tt = lib.track();
    auto pl = lib.playlist();
    auto pe = lib.playlist_entity();
    auto inf = lib.information();
    add("lib.verify", [&] { lib.verify(); return std::string("verified"); });
    add("lib.directory", [&] { return hs(lib.directory()); });
    add("lib.schema", [&] { return name_of(lib.schema()); });
    add("lib.exists", [&] { return std::string(ev2::engine_library::exists(S.dir) ? "1" : "0"); });
    add("lib.database", [&] { return ids(cids(lib.database().crates()), true); });
    add("lib.tables", [&] { auto t2 = lib.track(); auto p2 = lib.playlist(); auto e2 = lib.playlist_entity(); auto i2 = lib.information(); return std::string("made"); });
    add("information.get", [&] { auto r = inf.get(); return hs(r.uuid) + " " + std::to_string(r.schema_version_major) + "." + std::to_string(r.schema_version_minor) + "." + std::to_string(r.schema_version_patch); });
    // the ChangeLog table exists up to 2.20.2 only: later the accessor throws unsupported_operation (an answer)
    add("change_log.all", [&] { return std::to_string(lib.change_log().all().size()); });
    add("change_log.after", [&] { return std::to_string(lib.change_log().after(0).size()); });
    add("change_log.last", [&] { auto r = lib.change_log().last(); return r ? std::to_string((long long)r->id) : std::string("none"); });
    add("playlist.all_ids", [&] { auto v = pl.all_ids(); return ids(std::vector<int64_t>(v.begin(), v.end()), true); });
    add("playlist.root_ids", [&] { auto v = pl.root_ids(); return ids(std::vector<int64_t>(v.begin(), v.end()), false); });
    add("playlist.find_ids", [&] { auto v = pl.find_ids("\x01none"); return ids(std::vector<int64_t>(v.begin(), v.end()), true); });
    add("playlist.find_root_id", [&] { return oi(pl.find_root_id("\x01none")); });
    std::vector<int64_t> pids;
    {
        quiet_guard q;
        pids = pl.all_ids();
        std::sort(pids.begin(), pids.end());
    }
    pids.push_back(987654321);
    for (auto id : pids)
    {
        add("playlist.exists", [&] { return std::string(pl.exists(id) ? "1" : "0"); });
        add("playlist.get", [&] { auto r = pl.get(id); return r ? hexstr(r->title) + " " + std::to_string((long long)r->parent_list_id) + " " + std::to_string((long long)r->next_list_id) : std::string("none"); });
        add("playlist.child_ids", [&] { auto v = pl.child_ids(id); return ids(std::vector<int64_t>(v.begin(), v.end()), false); });
        add("playlist.descendant_ids", [&] { auto v = pl.descendant_ids(id); return ids(std::vector<int64_t>(v.begin(), v.end()), true); });
        add("playlist.find_id", [&] { auto r = pl.get(id); return r ? oi(pl.find_id(r->parent_list_id, r->title)) : std::string("none"); });
        add("playlist.find_ids", [&] { auto r = pl.get(id); if (!r) return std::string("none"); auto v = pl.find_ids(r->title); return ids(std::vector<int64_t>(v.begin(), v.end()), true); });
        add("playlist.find_root_id", [&] { auto r = pl.get(id); return r ? oi(pl.find_root_id(r->title)) : std::string("none"); });
        add("playlist_entity.track_ids", [&] { auto v = pe.track_ids(id); return ids(std::vector<int64_t>(v.begin(), v.end()), false); });
        add("playlist_entity.get_for_list", [&] { std::string s; for (auto& r : pe.get_for_list(id)) s += std::to_string((long long)r.id) + ":" + std::to_string((long long)r.track_id) + ":" + std::to_string((long long)r.next_entity_id) + ","; return s; });
    }
    std::vector<int64_t> tidsv;
    {
        quiet_guard q;
        tidsv = tt.all_ids();
        std::sort(tidsv.begin(), tidsv.end());
    }
    add("track.all_ids", [&] { auto v = tt.all_ids(); return ids(std::vector<int64_t>(v.begin(), v.end()), true); });
    add("track.find_id_by_path", [&] { return oi(tt.find_id_by_path("\x01no/such/path.mp3")); });
    for (auto pid : pids)
        for (auto tid : tidsv)
            add("playlist_entity.get", [&] { auto r = pe.get(pid, tid); return r ? std::to_string((long long)r->id) : std::string("none"); });
    tidsv.push_back(987654321);
    for (auto id : tidsv)
    {
        add("track.exists", [&] { return std::string(tt.exists(id) ? "1" : "0"); });
        add("track.get", [&] { auto r = tt.get(id); return r ? hexstr(r->path) + " " + hexstr(r->filename) + " " + ostr(r->title) + " " + std::to_string((long long)r->length) + " " + hs(wr(r->track_data)) + " " + hs(wr(r->beat_data)) : std::string("none"); });
        add("track.find_id_by_path", [&] { auto r = tt.get(id); return r ? oi(tt.find_id_by_path(r->path)) : std::string("none"); });
#define G(name, expr) add("track." #name, [&] { return expr; });
        G(get_play_order, oi(tt.get_play_order(id)))
        G(get_length, std::to_string((long long)tt.get_length(id)))
        G(get_bpm, oi(tt.get_bpm(id)))
        G(get_year, oi(tt.get_year(id)))
        G(get_path, hexstr(tt.get_path(id)))
        G(get_filename, hexstr(tt.get_filename(id)))
        G(get_bitrate, oi(tt.get_bitrate(id)))
        G(get_bpm_analyzed, od(tt.get_bpm_analyzed(id)))
        G(get_album_art_id, std::to_string((long long)tt.get_album_art_id(id)))
        G(get_file_bytes, oi(tt.get_file_bytes(id)))
        G(get_title, ostr(tt.get_title(id)))
        G(get_artist, ostr(tt.get_artist(id)))
        G(get_album, ostr(tt.get_album(id)))
        G(get_genre, ostr(tt.get_genre(id)))
        G(get_comment, ostr(tt.get_comment(id)))
        G(get_label, ostr(tt.get_label(id)))
        G(get_composer, ostr(tt.get_composer(id)))
        G(get_remixer, ostr(tt.get_remixer(id)))
        G(get_key, oi(tt.get_key(id)))
        G(get_rating, std::to_string((long long)tt.get_rating(id)))
        G(get_album_art, ostr(tt.get_album_art(id)))
        G(get_time_last_played, otp(tt.get_time_last_played(id)))
        G(get_is_played, std::string(tt.get_is_played(id) ? "1" : "0"))
        G(get_file_type, hexstr(tt.get_file_type(id)))
        G(get_is_analyzed, std::string(tt.get_is_analyzed(id) ? "1" : "0"))
        G(get_date_created, otp(tt.get_date_created(id)))
        G(get_date_added, otp(tt.get_date_added(id)))
        G(get_is_available, std::string(tt.get_is_available(id) ? "1" : "0"))
        G(get_is_metadata_of_packed_track_changed, std::string(tt.get_is_metadata_of_packed_track_changed(id) ? "1" : "0"))
        G(get_is_performance_data_of_packed_track_changed, std::string(tt.get_is_performance_data_of_packed_track_changed(id) ? "1" : "0"))
        G(get_played_indicator, oi(tt.get_played_indicator(id)))
        G(get_is_metadata_imported, std::string(tt.get_is_metadata_imported(id) ? "1" : "0"))
        G(get_pdb_import_key, std::to_string((long long)tt.get_pdb_import_key(id)))
        G(get_streaming_source, ostr(tt.get_streaming_source(id)))
        G(get_uri, ostr(tt.get_uri(id)))
        G(get_is_beat_grid_locked, std::string(tt.get_is_beat_grid_locked(id) ? "1" : "0"))
        G(get_origin_database_uuid, hs(tt.get_origin_database_uuid(id)))
        G(get_origin_track_id, std::to_string((long long)tt.get_origin_track_id(id)))
        G(get_track_data, hs(wr(tt.get_track_data(id))))
        G(get_overview_waveform_data, hs(wr(tt.get_overview_waveform_data(id))))
        G(get_beat_data, hs(wr(tt.get_beat_data(id))))
        G(get_quick_cues, hs(wr(tt.get_quick_cues(id))))
        G(get_loops, hs(wr(tt.get_loops(id))))
        G(get_third_party_source_id, oi(tt.get_third_party_source_id(id)))
        G(get_streaming_flags, std::to_string((long long)tt.get_streaming_flags(id)))
        G(get_explicit_lyrics, std::string(tt.get_explicit_lyrics(id) ? "1" : "0"))
        G(get_active_on_load_loops, oi(tt.get_active_on_load_loops(id)))
        G(get_last_edit_time, otp(std::make_optional(tt.get_last_edit_time(id))))
#undef G
    }
    std::string raw1;
    {
        quiet_guard q;
        raw1 = raw_text(h);
    }
    return render(m, order) + " raw=" + (raw0 == raw1 ? "same" : "differs") + " n=" +
           std::to_string(pids.size() - 1) + "+" + std::to_string(tidsv.size() - 1);
}
