// Shared library-level state of the harness (database, handle variables) and
// helpers, so that command files other than djv_db.cpp can use them.
#pragma once
#include <chrono>
#include <map>
#include <optional>
#include <string>
#include <vector>

#include <sqlite3.h>

#include <djinterop/djinterop.hpp>
#include <djinterop/engine/engine.hpp>

#include "djv.hpp"
#include "djv_values.hpp"

namespace djv
{
namespace lib
{
struct state
{
    std::optional<djinterop::database> db;
    std::map<std::string, djinterop::crate> crates;
    std::map<std::string, djinterop::track> tracks;
    // `#alias on`: for every script variable a SECOND, independently obtained handle object onto the same crate /
    // track (crate_by_id / track_by_id at the time the variable is bound); calls through the variable then alternate
    // between the two objects.  The model's handles are stateless, so the script's expected answers do not change;
    // a per-object cache in the library (getters answering from what THIS object last read or wrote) does.
    // a trailing `+sameref` token (this line only): calls with an in and an out parameter of the same type are made
    // with ONE variable bound to both (create_or_load_database(dir, v, created, v))
    bool sameref = false;
    // the script variable of the track the most recent command went through (reopen observes that track first)
    std::string last_track;
    bool alias = false;
    unsigned alias_ctr = 0;
    std::map<std::string, djinterop::crate> crates2;
    std::map<std::string, djinterop::track> tracks2;
    std::string dir;     // library directory ("" for in-memory)
    std::string schema;  // enumerator name
    bool disk = false;
    int ndirs = 0;
    std::vector<std::string> made_dirs;
    ~state();
};
extern state S;

const std::vector<std::pair<std::string, djinterop::engine::engine_schema>>& schema_names();
djinterop::engine::engine_schema schema_of(const std::string& n);
std::string name_of(djinterop::engine::engine_schema s);
std::string new_dir();
djinterop::database& DB();
djinterop::crate& CR(const std::string& v);
djinterop::track& TR(const std::string& v);
void put_crate(const std::string& v, const djinterop::crate& c);
void put_track(const std::string& v, const djinterop::track& t);
// drop every handle and the database, forget captured sqlite handles
void reset_all();

// snapshot text form
template <class T>
inline std::string io_(const std::optional<T>& v) { return v ? std::to_string((long long)*v) : "none"; }
inline std::string uo_(const std::optional<unsigned long long>& v) { return v ? std::to_string(*v) : "none"; }
std::string so(const std::optional<std::string>& s);
// every per-field getter of a track as one text (djv_db.cpp)
std::string track_getters_text(const djinterop::track& t);
std::optional<std::string> rd_ostr(cursor& c);
djinterop::track_snapshot rd_snapshot(cursor& c);
std::string wr_snapshot(const djinterop::track_snapshot& s);
std::string tp(const std::optional<std::chrono::system_clock::time_point>& t);
std::string wr_cues(const std::vector<std::optional<djinterop::hot_cue>>& v);
std::string wr_loops(const std::vector<std::optional<djinterop::loop>>& v);

// raw access to the library's own connection(s) through the C API
std::vector<sqlite3*> live_handles();
sqlite3* main_handle();
std::string raw_query(sqlite3* h, const std::string& sql);
bool is_v2();
std::string ids(std::vector<int64_t> v, bool sort);
std::vector<int64_t> cids(const std::vector<djinterop::crate>& v);
std::vector<int64_t> tids(const std::vector<djinterop::track>& v);
}  // namespace lib
}  // namespace djv
