// Schema-1.x track commands (C01 / C06, legacy layout):
//   v1.rows <trackvar>      raw Track / MetaData / MetaDataInteger / PerformanceData rows of the
//                           track, read through the C API on the library's own connection (no
//                           library code on the read path except the six blob decoders)
//   v1.reupdate <trackvar>  update(snapshot()) and the snapshot after it (fixed point on real code)
//   v1.rmperf <trackvar>    delete the PerformanceData row (a state Engine libraries can be in)
//   v1.skewgrid <trackvar>  make the default beat grid differ from the adjusted one (what Engine does
//                           when the user adjusts a grid): default := {} if the adjusted grid is not
//                           empty, else {(0, 0.0), (4, 88200.0)}; the blob is re-encoded with the
//                           library's own codec and written through the C API
#include <optional>
#include <string>
#include <vector>

#include <sqlite3.h>

#include <djinterop/djinterop.hpp>

#include "djinterop/engine/v1/performance_data_format.hpp"
#include "djv.hpp"
#include "djv_state.hpp"
#include "djv_values.hpp"

using namespace djv;
using namespace djv::lib;
namespace ev1 = djinterop::engine::v1;

namespace
{
bool ge(const std::string& a, const char* b)
{
    auto& names = schema_names();
    int ia = -1, ib = -1;
    for (size_t i = 0; i < names.size(); ++i)
    {
        if (names[i].first == a) ia = (int)i;
        if (names[i].first == b) ib = (int)i;
    }
    if (ia < 0 || ib < 0) throw bad_command{"schema order"};
    return ia >= ib;
}

std::vector<std::byte> blob_of(sqlite3_stmt* st, int i)
{
    const auto* p = (const std::byte*)sqlite3_column_blob(st, i);
    int n = sqlite3_column_bytes(st, i);
    if (!p || n <= 0) return {};
    return std::vector<std::byte>(p, p + n);
}

template <class F>
std::string guarded(F f)
{
    try
    {
        return f();
    }
    catch (const std::exception&)
    {
        return "undecodable";
    }
}
}  // namespace

DJV_CMD(v1_rows, "v1.rows")
{
    auto id = std::to_string((long long)TR(a.at(1)).id());
    auto* h = main_handle();
    std::string cols =
        "playOrder, length, lengthCalculated, bpm, year, path, filename, bitrate, bpmAnalyzed, trackType, "
        "isExternalTrack, uuidOfExternalDatabase, idTrackInExternalDatabase, idAlbumArt";
    if (ge(S.schema, "schema_1_7_1")) cols += ", pdbImportKey";
    if (ge(S.schema, "schema_1_15_0")) cols += ", fileBytes, uri";
    if (ge(S.schema, "schema_1_18_0_desktop")) cols += ", isBeatGridLocked";
    std::string out = "T" + raw_query(h, "SELECT " + cols + " FROM Track WHERE id = " + id);
    out += " M" + raw_query(h, "SELECT type, text FROM MetaData WHERE id = " + id + " ORDER BY type");
    out += " I" + raw_query(h, "SELECT type, value FROM MetaDataInteger WHERE id = " + id + " ORDER BY type");
    std::string pc = "isAnalyzed, isRendered, hasSeratoValues";
    if (ge(S.schema, "schema_1_7_1")) pc += ", hasRekordboxValues";
    if (ge(S.schema, "schema_1_11_1")) pc += ", hasTraktorValues";
    out += " P" + raw_query(h, "SELECT " + pc + " FROM PerformanceData WHERE id = " + id);
    sqlite3_stmt* st = nullptr;
    std::string sql =
        "SELECT trackData, highResolutionWaveFormData, overviewWaveFormData, beatData, quickCues, loops "
        "FROM PerformanceData WHERE id = " + id;
    if (sqlite3_prepare_v2(h, sql.c_str(), -1, &st, nullptr) != SQLITE_OK) throw bad_command{"prepare"};
    int n = 0;
    while (sqlite3_step(st) == SQLITE_ROW)
    {
        ++n;
        auto b0 = blob_of(st, 0), b1 = blob_of(st, 1), b2 = blob_of(st, 2), b3 = blob_of(st, 3), b4 = blob_of(st, 4),
             b5 = blob_of(st, 5);
        out += " td{" + guarded([&] { return wr(ev1::track_data::decode(b0)); }) + "}";
        out += " hi{" + guarded([&] { return wr(ev1::high_res_waveform_data::decode(b1)); }) + "}";
        out += " ov{" + guarded([&] { return wr(ev1::overview_waveform_data::decode(b2)); }) + "}";
        out += " bt{" + guarded([&] { return wr(ev1::beat_data::decode(b3)); }) + "}";
        out += " qc{" + guarded([&] { return wr(ev1::quick_cues_data::decode(b4)); }) + "}";
        out += " lp{" + guarded([&] { return wr(ev1::loops_data::decode(b5)); }) + "}";
    }
    sqlite3_finalize(st);
    if (n == 0) out += " noperf";
    return out;
}

DJV_CMD(v1_reupdate, "v1.reupdate")
{
    auto& t = TR(a.at(1));
    auto s = t.snapshot();
    t.update(s);
    return wr_snapshot(t.snapshot());
}

DJV_CMD(v1_rmperf, "v1.rmperf")
{
    auto id = std::to_string((long long)TR(a.at(1)).id());
    char* err = nullptr;
    std::string sql = "DELETE FROM PerformanceData WHERE id = " + id;
    int rc = sqlite3_exec(main_handle(), sql.c_str(), nullptr, nullptr, &err);
    if (rc != SQLITE_OK)
    {
        sqlite3_free(err);
        throw bad_command{"rmperf"};
    }
    return "";
}

DJV_CMD(v1_skewgrid, "v1.skewgrid")
{
    auto id = (long long)TR(a.at(1)).id();
    auto* h = main_handle();
    sqlite3_stmt* st = nullptr;
    std::string sql = "SELECT beatData FROM PerformanceData WHERE id = " + std::to_string(id);
    if (sqlite3_prepare_v2(h, sql.c_str(), -1, &st, nullptr) != SQLITE_OK) throw bad_command{"prepare"};
    bool have = false;
    std::vector<std::byte> blob;
    if (sqlite3_step(st) == SQLITE_ROW)
    {
        have = true;
        blob = blob_of(st, 0);
    }
    sqlite3_finalize(st);
    if (!have) return "";
    auto bd = ev1::beat_data::decode(blob);
    if (bd.adjusted_beatgrid.empty())
        bd.default_beatgrid = {djinterop::beatgrid_marker{0, 0.0}, djinterop::beatgrid_marker{4, 88200.0}};
    else
        bd.default_beatgrid.clear();
    auto enc = bd.encode();
    sql = "UPDATE PerformanceData SET beatData = ? WHERE id = " + std::to_string(id);
    if (sqlite3_prepare_v2(h, sql.c_str(), -1, &st, nullptr) != SQLITE_OK) throw bad_command{"prepare"};
    sqlite3_bind_blob(st, 1, enc.data(), (int)enc.size(), SQLITE_TRANSIENT);
    int rc = sqlite3_step(st);
    sqlite3_finalize(st);
    if (rc != SQLITE_DONE) throw bad_command{"skewgrid"};
    return "";
}
