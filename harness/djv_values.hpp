// Canonical text form of the blob values (shared with the Lean driver).
#pragma once
#include <optional>
#include <string>

#include <djinterop/djinterop.hpp>
#include <djinterop/engine/v2/beat_data_blob.hpp>
#include <djinterop/engine/v2/loops_blob.hpp>
#include <djinterop/engine/v2/overview_waveform_data_blob.hpp>
#include <djinterop/engine/v2/quick_cues_blob.hpp>
#include <djinterop/engine/v2/track_data_blob.hpp>

#include "djinterop/engine/v1/performance_data_format.hpp"

#include "djv.hpp"

namespace djv
{
struct cursor
{
    const args_t& a;
    size_t i;
    const std::string& next()
    {
        if (i >= a.size()) throw bad_command{"missing token"};
        return a[i++];
    }
    bool peek_is(const char* s) const { return i < a.size() && a[i] == s; }
    void done() const
    {
        if (i != a.size()) throw bad_command{"extra tokens"};
    }
    double f() { return bitsd(parse_hex64(next())); }
    int64_t i64() { return parse_i64(next()); }
    int32_t i32()
    {
        auto v = parse_i64(next());
        if (v < INT32_MIN || v > INT32_MAX) throw bad_command{"i32 range"};
        return (int32_t)v;
    }
    uint8_t u8()
    {
        auto v = parse_i64(next());
        if (v < 0 || v > 255) throw bad_command{"u8 range"};
        return (uint8_t)v;
    }
    size_t count(size_t max = 2000000)
    {
        auto v = parse_i64(next());
        if (v < 0 || (uint64_t)v > max) throw bad_command{"count range"};
        return (size_t)v;
    }
    std::vector<std::byte> bytes() { return parse_hexbytes(next()); }
    std::string str() { return parse_hexstr(next()); }
    std::optional<double> optf()
    {
        if (peek_is("none")) { ++i; return std::nullopt; }
        return f();
    }
    std::optional<int64_t> opti64()
    {
        if (peek_is("none")) { ++i; return std::nullopt; }
        return i64();
    }
};

inline std::string fo(const std::optional<double>& v) { return v ? fd(*v) : "none"; }
inline std::string io(const std::optional<int64_t>& v) { return v ? std::to_string(*v) : "none"; }
inline std::string u8s(uint8_t v) { return std::to_string((unsigned)v); }

// ---------------------------------------------------------------- v2
namespace ev2_ = djinterop::engine::v2;
namespace ev1_ = djinterop::engine::v1;

inline std::vector<ev2_::beat_grid_marker_blob> rd_v2_grid(cursor& c)
{
    std::vector<ev2_::beat_grid_marker_blob> g(c.count());
    for (auto& m : g)
    {
        m.sample_offset = c.f();
        m.beat_number = c.i64();
        m.number_of_beats = c.i32();
        m.unknown_value_1 = c.i32();
    }
    return g;
}
inline std::string wr_v2_grid(const std::vector<ev2_::beat_grid_marker_blob>& g)
{
    std::string s = std::to_string(g.size());
    for (auto& m : g)
        s += " " + fd(m.sample_offset) + " " + std::to_string(m.beat_number) + " " +
             std::to_string(m.number_of_beats) + " " + std::to_string(m.unknown_value_1);
    return s;
}
inline ev2_::beat_data_blob rd_v2_beat(cursor& c)
{
    ev2_::beat_data_blob v{};
    v.sample_rate = c.f();
    v.samples = c.f();
    v.is_beatgrid_set = c.u8();
    v.default_beat_grid = rd_v2_grid(c);
    v.adjusted_beat_grid = rd_v2_grid(c);
    v.extra_data = c.bytes();
    return v;
}
inline std::string wr(const ev2_::beat_data_blob& v)
{
    return fd(v.sample_rate) + " " + fd(v.samples) + " " + u8s(v.is_beatgrid_set) + " " +
           wr_v2_grid(v.default_beat_grid) + " " + wr_v2_grid(v.adjusted_beat_grid) + " " +
           hexbytes(v.extra_data);
}
inline djinterop::pad_color rd_color(cursor& c)
{
    djinterop::pad_color col;
    col.a = c.u8();
    col.r = c.u8();
    col.g = c.u8();
    col.b = c.u8();
    return col;
}
inline std::string wr_color(const djinterop::pad_color& col)
{
    return u8s(col.a) + " " + u8s(col.r) + " " + u8s(col.g) + " " + u8s(col.b);
}
inline ev2_::quick_cues_blob rd_v2_cues(cursor& c)
{
    ev2_::quick_cues_blob v{};
    v.quick_cues.resize(c.count());
    for (auto& q : v.quick_cues)
    {
        q.label = c.str();
        q.sample_offset = c.f();
        q.color = rd_color(c);
    }
    v.adjusted_main_cue = c.f();
    v.is_main_cue_adjusted = c.u8() != 0;
    v.default_main_cue = c.f();
    v.extra_data = c.bytes();
    return v;
}
inline std::string wr(const ev2_::quick_cues_blob& v)
{
    std::string s = std::to_string(v.quick_cues.size());
    for (auto& q : v.quick_cues) s += " " + hexstr(q.label) + " " + fd(q.sample_offset) + " " + wr_color(q.color);
    s += " " + fd(v.adjusted_main_cue) + " " + (v.is_main_cue_adjusted ? "1" : "0") + " " +
         fd(v.default_main_cue) + " " + hexbytes(v.extra_data);
    return s;
}
inline ev2_::loops_blob rd_v2_loops(cursor& c)
{
    ev2_::loops_blob v{};
    v.loops.resize(c.count());
    for (auto& l : v.loops)
    {
        l.label = c.str();
        l.start_sample_offset = c.f();
        l.end_sample_offset = c.f();
        l.is_start_set = c.u8();
        l.is_end_set = c.u8();
        l.color = rd_color(c);
    }
    v.extra_data = c.bytes();
    return v;
}
inline std::string wr(const ev2_::loops_blob& v)
{
    std::string s = std::to_string(v.loops.size());
    for (auto& l : v.loops)
        s += " " + hexstr(l.label) + " " + fd(l.start_sample_offset) + " " + fd(l.end_sample_offset) + " " +
             u8s(l.is_start_set) + " " + u8s(l.is_end_set) + " " + wr_color(l.color);
    s += " " + hexbytes(v.extra_data);
    return s;
}
inline ev2_::overview_waveform_data_blob rd_v2_ovw(cursor& c)
{
    ev2_::overview_waveform_data_blob v{};
    v.samples_per_waveform_point = c.f();
    auto pts = c.bytes();
    if (pts.size() % 3) throw bad_command{"points"};
    v.waveform_points.resize(pts.size() / 3);
    for (size_t i = 0; i < v.waveform_points.size(); ++i)
    {
        v.waveform_points[i].low_value = (uint8_t)pts[3 * i];
        v.waveform_points[i].mid_value = (uint8_t)pts[3 * i + 1];
        v.waveform_points[i].high_value = (uint8_t)pts[3 * i + 2];
    }
    auto mx = c.bytes();
    if (mx.size() != 3) throw bad_command{"max point"};
    v.maximum_point.low_value = (uint8_t)mx[0];
    v.maximum_point.mid_value = (uint8_t)mx[1];
    v.maximum_point.high_value = (uint8_t)mx[2];
    v.extra_data = c.bytes();
    return v;
}
inline std::string wr(const ev2_::overview_waveform_data_blob& v)
{
    std::vector<std::byte> pts;
    for (auto& p : v.waveform_points)
    {
        pts.push_back((std::byte)p.low_value);
        pts.push_back((std::byte)p.mid_value);
        pts.push_back((std::byte)p.high_value);
    }
    std::vector<std::byte> mx{(std::byte)v.maximum_point.low_value, (std::byte)v.maximum_point.mid_value,
                              (std::byte)v.maximum_point.high_value};
    return fd(v.samples_per_waveform_point) + " " + hexbytes(pts) + " " + hexbytes(mx) + " " +
           hexbytes(v.extra_data);
}
inline ev2_::track_data_blob rd_v2_track(cursor& c)
{
    ev2_::track_data_blob v{};
    v.sample_rate = c.f();
    v.samples = c.i64();
    v.key = c.i32();
    v.average_loudness_low = c.f();
    v.average_loudness_mid = c.f();
    v.average_loudness_high = c.f();
    v.extra_data = c.bytes();
    return v;
}
inline std::string wr(const ev2_::track_data_blob& v)
{
    return fd(v.sample_rate) + " " + std::to_string(v.samples) + " " + std::to_string(v.key) + " " +
           fd(v.average_loudness_low) + " " + fd(v.average_loudness_mid) + " " +
           fd(v.average_loudness_high) + " " + hexbytes(v.extra_data);
}

// ---------------------------------------------------------------- v1
inline std::vector<djinterop::beatgrid_marker> rd_grid(cursor& c)
{
    std::vector<djinterop::beatgrid_marker> g(c.count());
    for (auto& m : g)
    {
        m.index = c.i32();
        m.sample_offset = c.f();
    }
    return g;
}
inline std::string wr_grid(const std::vector<djinterop::beatgrid_marker>& g)
{
    std::string s = std::to_string(g.size());
    for (auto& m : g) s += " " + std::to_string(m.index) + " " + fd(m.sample_offset);
    return s;
}
inline ev1_::beat_data rd_v1_beat(cursor& c)
{
    ev1_::beat_data v;
    v.sample_rate = c.optf();
    v.sample_count = c.optf();
    v.default_beatgrid = rd_grid(c);
    v.adjusted_beatgrid = rd_grid(c);
    return v;
}
inline std::string wr(const ev1_::beat_data& v)
{
    return fo(v.sample_rate) + " " + fo(v.sample_count) + " " + wr_grid(v.default_beatgrid) + " " +
           wr_grid(v.adjusted_beatgrid);
}
inline std::vector<djinterop::waveform_entry> rd_wf(cursor& c)
{
    auto b = c.bytes();
    if (b.size() % 6) throw bad_command{"waveform"};
    std::vector<djinterop::waveform_entry> w(b.size() / 6);
    for (size_t i = 0; i < w.size(); ++i)
    {
        w[i].low.value = (uint8_t)b[6 * i];
        w[i].mid.value = (uint8_t)b[6 * i + 1];
        w[i].high.value = (uint8_t)b[6 * i + 2];
        w[i].low.opacity = (uint8_t)b[6 * i + 3];
        w[i].mid.opacity = (uint8_t)b[6 * i + 4];
        w[i].high.opacity = (uint8_t)b[6 * i + 5];
    }
    return w;
}
inline std::string wr_wf(const std::vector<djinterop::waveform_entry>& w)
{
    std::vector<std::byte> b;
    b.reserve(w.size() * 6);
    for (auto& e : w)
    {
        b.push_back((std::byte)e.low.value);
        b.push_back((std::byte)e.mid.value);
        b.push_back((std::byte)e.high.value);
        b.push_back((std::byte)e.low.opacity);
        b.push_back((std::byte)e.mid.opacity);
        b.push_back((std::byte)e.high.opacity);
    }
    return hexbytes(b);
}
inline ev1_::high_res_waveform_data rd_v1_hires(cursor& c)
{
    ev1_::high_res_waveform_data v;
    v.samples_per_entry = c.f();
    v.waveform = rd_wf(c);
    return v;
}
inline std::string wr(const ev1_::high_res_waveform_data& v)
{
    return fd(v.samples_per_entry) + " " + wr_wf(v.waveform);
}
inline ev1_::overview_waveform_data rd_v1_ovw(cursor& c)
{
    ev1_::overview_waveform_data v;
    v.samples_per_entry = c.f();
    v.waveform = rd_wf(c);
    return v;
}
inline std::string wr(const ev1_::overview_waveform_data& v)
{
    return fd(v.samples_per_entry) + " " + wr_wf(v.waveform);
}
inline std::optional<djinterop::hot_cue> rd_optcue(cursor& c)
{
    auto& t = c.next();
    if (t == "none") return std::nullopt;
    if (t != "some") throw bad_command{"some/none"};
    djinterop::hot_cue q;
    q.label = c.str();
    q.sample_offset = c.f();
    q.color = rd_color(c);
    return q;
}
inline std::string wr_optcue(const std::optional<djinterop::hot_cue>& q)
{
    if (!q) return "none";
    return "some " + hexstr(q->label) + " " + fd(q->sample_offset) + " " + wr_color(q->color);
}
inline std::optional<djinterop::loop> rd_optloop(cursor& c)
{
    auto& t = c.next();
    if (t == "none") return std::nullopt;
    if (t != "some") throw bad_command{"some/none"};
    djinterop::loop l;
    l.label = c.str();
    l.start_sample_offset = c.f();
    l.end_sample_offset = c.f();
    l.color = rd_color(c);
    return l;
}
inline std::string wr_optloop(const std::optional<djinterop::loop>& l)
{
    if (!l) return "none";
    return "some " + hexstr(l->label) + " " + fd(l->start_sample_offset) + " " + fd(l->end_sample_offset) +
           " " + wr_color(l->color);
}
inline ev1_::quick_cues_data rd_v1_cues(cursor& c)
{
    ev1_::quick_cues_data v;
    auto n = c.count();
    for (size_t i = 0; i < n; ++i) v.hot_cues.push_back(rd_optcue(c));
    v.adjusted_main_cue = c.f();
    v.default_main_cue = c.f();
    return v;
}
inline std::string wr(const ev1_::quick_cues_data& v)
{
    std::string s = std::to_string(v.hot_cues.size());
    for (auto& q : v.hot_cues) s += " " + wr_optcue(q);
    s += " " + fd(v.adjusted_main_cue) + " " + fd(v.default_main_cue);
    return s;
}
inline ev1_::loops_data rd_v1_loops(cursor& c)
{
    ev1_::loops_data v;
    auto n = c.count();
    for (size_t i = 0; i < n; ++i) v.loops.push_back(rd_optloop(c));
    return v;
}
inline std::string wr(const ev1_::loops_data& v)
{
    std::string s = std::to_string(v.loops.size());
    for (auto& l : v.loops) s += " " + wr_optloop(l);
    return s;
}
inline ev1_::track_data rd_v1_track(cursor& c)
{
    ev1_::track_data v;
    v.sample_rate = c.optf();
    v.sample_count = c.opti64();
    v.average_loudness = c.optf();
    auto k = c.opti64();
    if (k)
    {
        if (*k < INT32_MIN || *k > INT32_MAX) throw bad_command{"key range"};
        v.key = static_cast<djinterop::musical_key>((int32_t)*k);
    }
    return v;
}
inline std::string wr(const ev1_::track_data& v)
{
    return fo(v.sample_rate) + " " + io(v.sample_count) + " " + fo(v.average_loudness) + " " +
           (v.key ? std::to_string((int32_t)*v.key) : std::string("none"));
}
}  // namespace djv
