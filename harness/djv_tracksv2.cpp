// Schema-2.x track commands of the C01/C06 tie and of the C11 track part.
//   t2.tracks: key, path and derived columns of EVERY Track row (ordered by id),
//   Information.uuid and the AUTOINCREMENT counter, read through the C API on the
//   library's own connection; typed scalars (null / integer / s<hex text>).
//   t2.skew <trackvar>: makes the *default* beat grid and the *default* main cue of
//   the stored blobs differ from the adjusted ones (what Engine itself does when a
//   grid / cue is adjusted; no library call produces that state): default grid :=
//   one marker (12345.0, beat 7), default main cue := 54321.0.  Planted through the
//   C API with the library's codecs; getters and snapshot() must not notice.
//   t2.row <trackvar>: the raw Track row of the track, read through the C API
//   on the library's own connection (no library code on the SQL path); the five
//   BLOB columns are shown decoded (the codecs are C02–C05's subject).
#include <sqlite3.h>

#include <djinterop/djinterop.hpp>
#include <djinterop/engine/engine.hpp>

#include "djv.hpp"
#include "djv_state.hpp"
#include "djv_values.hpp"

using namespace djv;
using namespace djv::lib;
namespace ev2 = djinterop::engine::v2;

namespace
{
std::string col_scalar(sqlite3_stmt* st, int i)
{
    switch (sqlite3_column_type(st, i))
    {
        case SQLITE_NULL: return "null";
        case SQLITE_INTEGER: return std::to_string((long long)sqlite3_column_int64(st, i));
        case SQLITE_FLOAT: return "f" + fd(sqlite3_column_double(st, i));
        case SQLITE_TEXT:
        {
            std::string s((const char*)sqlite3_column_text(st, i), sqlite3_column_bytes(st, i));
            return "s" + hexstr(s);
        }
        default: return "blob";
    }
}

std::vector<std::byte> col_blob(sqlite3_stmt* st, int i)
{
    const auto* p = (const std::byte*)sqlite3_column_blob(st, i);
    return std::vector<std::byte>(p, p + sqlite3_column_bytes(st, i));
}

template <class B>
std::string decoded(sqlite3_stmt* st, int i)
{
    if (sqlite3_column_type(st, i) != SQLITE_BLOB) return "not-a-blob";
    try
    {
        return wr(B::from_blob(col_blob(st, i)));
    }
    catch (const std::exception&)
    {
        return "undecodable";
    }
}
}  // namespace

DJV_CMD(t2_row, "t2.row")
{
    auto& t = TR(a.at(1));
    bool has_aoll = S.schema != "schema_2_18_0";
    std::string sql =
        "SELECT id, originTrackId, originDatabaseUuid = (SELECT uuid FROM Information), "
        "playOrder, length, bpm, year, path, filename, bitrate, bpmAnalyzed, albumArtId, fileBytes, title, "
        "artist, album, genre, comment, label, composer, remixer, key, rating, albumArt, timeLastPlayed, "
        "isPlayed, fileType, isAnalyzed, dateCreated, isAvailable, isMetadataOfPackedTrackChanged, "
        "isPerfomanceDataOfPackedTrackChanged, playedIndicator, isMetadataImported, pdbImportKey, "
        "streamingSource, uri, isBeatGridLocked, thirdPartySourceId, streamingFlags, explicitLyrics, " +
        std::string(has_aoll ? "activeOnLoadLoops" : "'absent'") +
        ", trackData, overviewWaveFormData, beatData, quickCues, loops, typeof(dateAdded) "
        "FROM Track WHERE id = " +
        std::to_string((long long)t.id());
    sqlite3_stmt* st = nullptr;
    sqlite3* h = main_handle();
    if (sqlite3_prepare_v2(h, sql.c_str(), -1, &st, nullptr) != SQLITE_OK)
        throw bad_command{std::string("prepare: ") + sqlite3_errmsg(h)};
    std::string out;
    int rc = sqlite3_step(st);
    if (rc == SQLITE_ROW)
    {
        long long id = sqlite3_column_int64(st, 0);
        out = "id=" + std::to_string(id);
        out += sqlite3_column_int64(st, 1) == id ? " origin-ok" : " origin-bad";
        out += sqlite3_column_int64(st, 2) == 1 ? " uuid-ok" : " uuid-bad";
        for (int i = 3; i <= 41; ++i)
        {
            if (i == 41 && !has_aoll)
            {
                out += " absent";
                continue;
            }
            out += " " + col_scalar(st, i);
        }
        out += " | " + decoded<ev2::track_data_blob>(st, 42);
        out += " | " + decoded<ev2::overview_waveform_data_blob>(st, 43);
        out += " | " + decoded<ev2::beat_data_blob>(st, 44);
        out += " | " + decoded<ev2::quick_cues_blob>(st, 45);
        out += " | " + decoded<ev2::loops_blob>(st, 46);
        std::string ty = (const char*)sqlite3_column_text(st, 47);
        if (ty != "integer") out += " dateAdded-not-integer";
    }
    else
    {
        out = "none";
    }
    sqlite3_finalize(st);
    return out;
}

DJV_CMD(t2_tracks, "t2.tracks")
{
    sqlite3* h = main_handle();
    auto one = [&](const std::string& sql) -> std::string
    {
        sqlite3_stmt* st = nullptr;
        if (sqlite3_prepare_v2(h, sql.c_str(), -1, &st, nullptr) != SQLITE_OK)
            throw bad_command{std::string("prepare: ") + sqlite3_errmsg(h)};
        std::string v = "none";
        if (sqlite3_step(st) == SQLITE_ROW) v = col_scalar(st, 0);
        sqlite3_finalize(st);
        return v;
    };
    std::string out = "uuid=" + one("SELECT uuid FROM Information ORDER BY id LIMIT 1");
    out += " seq=" + one("SELECT seq FROM sqlite_sequence WHERE name = 'Track'");
    sqlite3_stmt* st = nullptr;
    if (sqlite3_prepare_v2(
            h, "SELECT id, path, filename, fileType, originDatabaseUuid, originTrackId FROM Track ORDER BY id", -1,
            &st, nullptr) != SQLITE_OK)
        throw bad_command{std::string("prepare: ") + sqlite3_errmsg(h)};
    int n = 0;
    std::string rows;
    while (sqlite3_step(st) == SQLITE_ROW)
    {
        ++n;
        rows += " |";
        for (int i = 0; i < 6; ++i) rows += " " + col_scalar(st, i);
    }
    sqlite3_finalize(st);
    return out + " n=" + std::to_string(n) + rows;
}

DJV_CMD(t2_skew, "t2.skew")
{
    auto& t = TR(a.at(1));
    sqlite3* h = main_handle();
    std::string id = std::to_string((long long)t.id());
    sqlite3_stmt* st = nullptr;
    std::string q = "SELECT beatData, quickCues FROM Track WHERE id = " + id;
    if (sqlite3_prepare_v2(h, q.c_str(), -1, &st, nullptr) != SQLITE_OK)
        throw bad_command{std::string("prepare: ") + sqlite3_errmsg(h)};
    if (sqlite3_step(st) != SQLITE_ROW)
    {
        sqlite3_finalize(st);
        return "none";
    }
    auto beat = ev2::beat_data_blob::from_blob(col_blob(st, 0));
    auto cues = ev2::quick_cues_blob::from_blob(col_blob(st, 1));
    sqlite3_finalize(st);
    beat.default_beat_grid = {ev2::beat_grid_marker_blob{12345.0, 7, 0, 0}};
    cues.default_main_cue = 54321.0;
    auto b1 = beat.to_blob();
    auto b2 = cues.to_blob();
    std::string u = "UPDATE Track SET beatData = ?, quickCues = ? WHERE id = " + id;
    if (sqlite3_prepare_v2(h, u.c_str(), -1, &st, nullptr) != SQLITE_OK)
        throw bad_command{std::string("prepare: ") + sqlite3_errmsg(h)};
    sqlite3_bind_blob(st, 1, b1.data(), (int)b1.size(), SQLITE_TRANSIENT);
    sqlite3_bind_blob(st, 2, b2.data(), (int)b2.size(), SQLITE_TRANSIENT);
    int rc = sqlite3_step(st);
    sqlite3_finalize(st);
    if (rc != SQLITE_DONE) throw bad_command{"t2.skew: update failed"};
    return "";
}
