// The pure conversion helpers of the schema-2.x track path, called directly (work-package convertv2):
//   cv.<ns>_<function> <arguments>  ->  what convert::<ns>::<function> returns, in the snapshot syntax.
// The headers are src-internal and header-only; they are compiled here with the harness flags
// (ASan + UBSan + _GLIBCXX_ASSERTIONS), so an undefined conversion is a `ub …` line.  The Lean driver
// answers the same lines with the functions REGENERATED from these headers (Driver/Cmds/ConvertV2Gen.lean).
#include <algorithm>
#include <chrono>
#include <cmath>
#include <optional>
#include <stdexcept>

#include <djinterop/djinterop.hpp>
#include <djinterop/engine/engine.hpp>

// `read::beatgrid_markers` is a non-inline function defined in its header, so the library's own track_impl.o
// already defines that symbol: the copy compiled here gets another name (no header included before this
// point after the #define mentions the identifier).
#include <djinterop/engine/v2/beat_data_blob.hpp>
#include <djinterop/performance_data.hpp>
#define beatgrid_markers djv_cv_beatgrid_markers
#include "djinterop/engine/v2/convert_beatgrid.hpp"
#undef beatgrid_markers
#include "djinterop/engine/v2/convert_hot_cues.hpp"
#include "djinterop/engine/v2/convert_loops.hpp"
#include "djinterop/engine/v2/convert_track.hpp"

#include "djv.hpp"
#include "djv_values.hpp"

using namespace djv;
namespace cvr = djinterop::engine::v2::convert::read;
namespace cvw = djinterop::engine::v2::convert::write;
namespace ev2 = djinterop::engine::v2;

namespace
{
std::optional<int32_t> opti32(cursor& c)
{
    if (c.peek_is("none")) { c.next(); return std::nullopt; }
    return c.i32();
}
std::optional<unsigned long long> optu64(cursor& c)
{
    if (c.peek_is("none")) { c.next(); return std::nullopt; }
    return (unsigned long long)parse_u64(c.next());
}
template <class T>
std::string so(const std::optional<T>& v)
{
    return v ? std::to_string(*v) : "none";
}
std::optional<djinterop::hot_cue> rd_opt_cue(cursor& c)
{
    auto t = c.next();
    if (t == "none") return std::nullopt;
    if (t != "some") throw bad_command{"cue"};
    djinterop::hot_cue q;
    q.label = c.str();
    q.sample_offset = c.f();
    q.color = rd_color(c);
    return q;
}
std::string wr_opt_cue(const std::optional<djinterop::hot_cue>& q)
{
    if (!q) return "none";
    return "some " + hexstr(q->label) + " " + fd(q->sample_offset) + " " + wr_color(q->color);
}
std::optional<djinterop::loop> rd_opt_loop(cursor& c)
{
    auto t = c.next();
    if (t == "none") return std::nullopt;
    if (t != "some") throw bad_command{"loop"};
    djinterop::loop l;
    l.label = c.str();
    l.start_sample_offset = c.f();
    l.end_sample_offset = c.f();
    l.color = rd_color(c);
    return l;
}
std::string wr_opt_loop(const std::optional<djinterop::loop>& l)
{
    if (!l) return "none";
    return "some " + hexstr(l->label) + " " + fd(l->start_sample_offset) + " " + fd(l->end_sample_offset) + " " +
           wr_color(l->color);
}
ev2::quick_cue_blob rd_cue(cursor& c)
{
    ev2::quick_cue_blob q;
    q.label = c.str();
    q.sample_offset = c.f();
    q.color = rd_color(c);
    return q;
}
std::string wr_cue(const ev2::quick_cue_blob& q)
{
    return hexstr(q.label) + " " + fd(q.sample_offset) + " " + wr_color(q.color);
}
ev2::loop_blob rd_loop(cursor& c)
{
    ev2::loop_blob l;
    l.label = c.str();
    l.start_sample_offset = c.f();
    l.end_sample_offset = c.f();
    l.is_start_set = c.u8();
    l.is_end_set = c.u8();
    l.color = rd_color(c);
    return l;
}
std::string wr_loop(const ev2::loop_blob& l)
{
    return hexstr(l.label) + " " + fd(l.start_sample_offset) + " " + fd(l.end_sample_offset) + " " +
           u8s(l.is_start_set) + " " + u8s(l.is_end_set) + " " + wr_color(l.color);
}
template <class V, class F>
std::string wr_list(const V& v, F f)
{
    std::string s = std::to_string(v.size());
    for (auto& x : v) s += " " + f(x);
    return s;
}
ev2::track_data_blob td_with(double rate, int64_t samples, double lo)
{
    ev2::track_data_blob t{};
    t.sample_rate = rate;
    t.samples = samples;
    t.key = 0;
    t.average_loudness_low = lo;
    t.average_loudness_mid = lo;
    t.average_loudness_high = lo;
    return t;
}
}  // namespace

DJV_CMD(cv_write_rating, "cv.write_rating")
{
    cursor c{a, 1};
    auto r = opti32(c);
    c.done();
    return std::to_string((long long)cvw::rating(r));
}
DJV_CMD(cv_read_rating, "cv.read_rating")
{
    cursor c{a, 1};
    auto r = c.i64();
    c.done();
    return so(cvr::rating(r));
}
DJV_CMD(cv_write_duration, "cv.write_duration")
{
    cursor c{a, 1};
    auto d = c.opti64();
    c.done();
    std::optional<std::chrono::milliseconds> ms;
    if (d) ms = std::chrono::milliseconds{*d};
    return std::to_string((long long)cvw::duration(ms));
}
DJV_CMD(cv_read_duration, "cv.read_duration")
{
    cursor c{a, 1};
    auto l = c.i64();
    c.done();
    auto d = cvr::duration(l);
    return d ? std::to_string((long long)d->count()) : "none";
}
DJV_CMD(cv_write_bpm, "cv.write_bpm")
{
    cursor c{a, 1};
    auto b = c.optf();
    c.done();
    auto f = cvw::bpm(b);
    return fo(f.bpm_analyzed) + " " + io(f.bpm);
}
DJV_CMD(cv_read_bpm, "cv.read_bpm")
{
    cursor c{a, 1};
    auto x = c.optf();
    auto y = c.opti64();
    c.done();
    return fo(cvr::bpm(x, y));
}
DJV_CMD(cv_write_key, "cv.write_key")
{
    cursor c{a, 1};
    auto k = opti32(c);
    c.done();
    std::optional<djinterop::musical_key> mk;
    if (k) mk = static_cast<djinterop::musical_key>(*k);
    auto f = cvw::key(mk);
    return so(f.key) + " " + std::to_string(f.track_data_key);
}
DJV_CMD(cv_read_key, "cv.read_key")
{
    cursor c{a, 1};
    auto k = opti32(c);
    c.done();
    auto r = cvr::key(k);
    return r ? std::to_string(static_cast<int32_t>(*r)) : "none";
}
DJV_CMD(cv_write_average_loudness, "cv.write_average_loudness")
{
    cursor c{a, 1};
    auto v = c.optf();
    c.done();
    return fd(cvw::average_loudness(v));
}
DJV_CMD(cv_read_average_loudness, "cv.read_average_loudness")
{
    cursor c{a, 1};
    auto v = c.f();
    c.done();
    return fo(cvr::average_loudness(td_with(0, 0, v)));
}
DJV_CMD(cv_write_sample_rate, "cv.write_sample_rate")
{
    cursor c{a, 1};
    auto v = c.optf();
    c.done();
    return fd(cvw::sample_rate(v));
}
DJV_CMD(cv_read_sample_rate, "cv.read_sample_rate")
{
    cursor c{a, 1};
    auto v = c.f();
    c.done();
    return fo(cvr::sample_rate(td_with(v, 0, 0)));
}
DJV_CMD(cv_write_sample_count, "cv.write_sample_count")
{
    cursor c{a, 1};
    auto v = optu64(c);
    c.done();
    auto f = cvw::sample_count(v);
    return std::to_string((long long)f.track_data_samples) + " " + fd(f.beat_data_samples);
}
DJV_CMD(cv_read_sample_count, "cv.read_sample_count")
{
    cursor c{a, 1};
    auto v = c.i64();
    c.done();
    return so(cvr::sample_count(td_with(0, v, 0)));
}
DJV_CMD(cv_write_album_art_id, "cv.write_album_art_id")
{
    cursor c{a, 1};
    auto v = c.opti64();
    c.done();
    return std::to_string((long long)cvw::album_art_id(v));
}
DJV_CMD(cv_read_album_art_id, "cv.read_album_art_id")
{
    cursor c{a, 1};
    auto v = c.i64();
    c.done();
    return io(cvr::album_art_id(v));
}
DJV_CMD(cv_write_main_cue, "cv.write_main_cue")
{
    cursor c{a, 1};
    auto v = c.optf();
    c.done();
    return fd(cvw::main_cue(v));
}
DJV_CMD(cv_read_main_cue, "cv.read_main_cue")
{
    cursor c{a, 1};
    auto v = c.f();
    c.done();
    return fo(cvr::main_cue(v));
}
DJV_CMD(cv_write_hot_cue, "cv.write_hot_cue")
{
    cursor c{a, 1};
    auto q = rd_opt_cue(c);
    c.done();
    return wr_cue(cvw::hot_cue(q));
}
DJV_CMD(cv_read_hot_cue, "cv.read_hot_cue")
{
    cursor c{a, 1};
    auto q = rd_cue(c);
    c.done();
    return wr_opt_cue(cvr::hot_cue(q));
}
DJV_CMD(cv_write_hot_cues, "cv.write_hot_cues")
{
    cursor c{a, 1};
    std::vector<std::optional<djinterop::hot_cue>> v;
    auto n = c.count(100000);
    for (size_t i = 0; i < n; ++i) v.push_back(rd_opt_cue(c));
    c.done();
    return wr_list(cvw::hot_cues(v), wr_cue);
}
DJV_CMD(cv_read_hot_cues, "cv.read_hot_cues")
{
    cursor c{a, 1};
    ev2::quick_cues_blob b{};
    auto n = c.count(100000);
    for (size_t i = 0; i < n; ++i) b.quick_cues.push_back(rd_cue(c));
    c.done();
    return wr_list(cvr::hot_cues(b), wr_opt_cue);
}
DJV_CMD(cv_write_loop, "cv.write_loop")
{
    cursor c{a, 1};
    auto l = rd_opt_loop(c);
    c.done();
    return wr_loop(cvw::loop(l));
}
DJV_CMD(cv_read_loop, "cv.read_loop")
{
    cursor c{a, 1};
    auto l = rd_loop(c);
    c.done();
    return wr_opt_loop(cvr::loop(l));
}
DJV_CMD(cv_write_loops, "cv.write_loops")
{
    cursor c{a, 1};
    std::vector<std::optional<djinterop::loop>> v;
    auto n = c.count(100000);
    for (size_t i = 0; i < n; ++i) v.push_back(rd_opt_loop(c));
    c.done();
    return wr(cvw::loops(v));
}
DJV_CMD(cv_read_loops, "cv.read_loops")
{
    cursor c{a, 1};
    ev2::loops_blob b{};
    auto n = c.count(100000);
    for (size_t i = 0; i < n; ++i) b.loops.push_back(rd_loop(c));
    c.done();
    return wr_list(cvr::loops(b), wr_opt_loop);
}
DJV_CMD(cv_empty_cue, "cv.empty_cue") { return wr_cue(ev2::quick_cue_blob::empty()); }
DJV_CMD(cv_empty_loop, "cv.empty_loop") { return wr_loop(ev2::loop_blob::empty()); }

// ---- convert_beatgrid.hpp (markers: `<index> <offset>`; blobs: `<offset> <beat_number> <number_of_beats> <unknown>`)
namespace
{
ev2::beat_grid_marker_blob rd_marker_blob(cursor& c)
{
    ev2::beat_grid_marker_blob m{};
    m.sample_offset = c.f();
    m.beat_number = c.i64();
    m.number_of_beats = c.i32();
    m.unknown_value_1 = c.i32();
    return m;
}
}  // namespace
DJV_CMD(cv_read_beatgrid_marker, "cv.read_beatgrid_marker")
{
    cursor c{a, 1};
    auto m = rd_marker_blob(c);
    c.done();
    auto r = cvr::beatgrid_marker(m);
    return std::to_string(r.index) + " " + fd(r.sample_offset);
}
DJV_CMD(cv_read_beatgrid_markers, "cv.read_beatgrid_markers")
{
    cursor c{a, 1};
    auto g = rd_v2_grid(c);
    c.done();
    return wr_grid(cvr::djv_cv_beatgrid_markers(g));
}
DJV_CMD(cv_write_beatgrid_markers, "cv.write_beatgrid_markers")
{
    cursor c{a, 1};
    auto g = rd_grid(c);
    c.done();
    return wr_v2_grid(cvw::djv_cv_beatgrid_markers(g));
}
DJV_CMD(cv_write_beatgrid, "cv.write_beatgrid")
{
    cursor c{a, 1};
    auto g = rd_grid(c);
    c.done();
    auto f = cvw::beatgrid(g);
    return u8s(f.is_beatgrid_set) + " " + wr_v2_grid(f.default_beat_grid) + " " + wr_v2_grid(f.adjusted_beat_grid);
}
