// djv: line-protocol harness around the real library objects.
// One command per input line, one canonical result per output line:
//   ok <text> | throw <class> | ub <kind> | bad-op <why>
#include <csignal>
#include <cstdio>
#include <cstdlib>
#include <iostream>
#include <stdexcept>
#include <system_error>
#include <typeinfo>
#include <unistd.h>

#include <djinterop/djinterop.hpp>
#include <sqlite_modern_cpp.h>

#include "djv.hpp"
#include "djv_state.hpp"

namespace djv
{
static std::map<std::string, cmd_fn>& registry()
{
    static std::map<std::string, cmd_fn> r;
    return r;
}
void register_cmd(const std::string& name, cmd_fn fn)
{
    // two groups registering the same command name would silently shadow one another
    if (registry().count(name))
    {
        std::fprintf(stderr, "djv: duplicate command name %s\n", name.c_str());
        std::abort();
    }
    registry()[name] = fn;
}

std::string hex64(uint64_t u)
{
    char buf[17];
    snprintf(buf, sizeof buf, "%016llx", (unsigned long long)u);
    return buf;
}
std::string fd(double d) { return hex64(dbits(d)); }
uint64_t parse_hex64(const std::string& s)
{
    if (s.empty() || s.size() > 16) throw bad_command{"hex64"};
    uint64_t v = 0;
    for (char c : s)
    {
        int d;
        if (c >= '0' && c <= '9') d = c - '0';
        else if (c >= 'a' && c <= 'f') d = c - 'a' + 10;
        else throw bad_command{"hex64"};
        v = (v << 4) | (uint64_t)d;
    }
    return v;
}
int64_t parse_i64(const std::string& s)
{
    size_t pos = 0;
    long long v;
    try { v = std::stoll(s, &pos, 10); }
    catch (...) { throw bad_command{"i64 " + s}; }
    if (pos != s.size()) throw bad_command{"i64 " + s};
    return v;
}
uint64_t parse_u64(const std::string& s)
{
    size_t pos = 0;
    unsigned long long v;
    if (s.empty() || s[0] == '-') throw bad_command{"u64 " + s};
    try { v = std::stoull(s, &pos, 10); }
    catch (...) { throw bad_command{"u64 " + s}; }
    if (pos != s.size()) throw bad_command{"u64 " + s};
    return v;
}
static const char* HEX = "0123456789abcdef";
std::string hexbytes(const std::vector<std::byte>& v)
{
    if (v.empty()) return "-";
    std::string s;
    s.reserve(v.size() * 2);
    for (auto b : v)
    {
        s.push_back(HEX[(unsigned)b >> 4]);
        s.push_back(HEX[(unsigned)b & 15]);
    }
    return s;
}
std::string hexstr(const std::string& v)
{
    if (v.empty()) return "-";
    std::string s;
    for (unsigned char b : v)
    {
        s.push_back(HEX[b >> 4]);
        s.push_back(HEX[b & 15]);
    }
    return s;
}
static int hv(char c)
{
    if (c >= '0' && c <= '9') return c - '0';
    if (c >= 'a' && c <= 'f') return c - 'a' + 10;
    throw bad_command{"hex"};
}
std::vector<std::byte> parse_hexbytes(const std::string& s)
{
    std::vector<std::byte> v;
    if (s == "-") return v;
    if (s.size() % 2) throw bad_command{"hex length"};
    v.reserve(s.size() / 2);
    for (size_t i = 0; i < s.size(); i += 2)
        v.push_back((std::byte)((hv(s[i]) << 4) | hv(s[i + 1])));
    return v;
}
std::string parse_hexstr(const std::string& s)
{
    std::string v;
    if (s == "-") return v;
    if (s.size() % 2) throw bad_command{"hex length"};
    for (size_t i = 0; i < s.size(); i += 2)
        v.push_back((char)((hv(s[i]) << 4) | hv(s[i + 1])));
    return v;
}

static std::string classify(const std::exception& e)
{
    using namespace djinterop;
#define K(T, name) \
    if (dynamic_cast<const T*>(&e)) return name;
    K(crate_database_inconsistency, "crate_database_inconsistency")
    K(track_database_inconsistency, "track_database_inconsistency")
    K(database_inconsistency, "database_inconsistency")
    K(database_not_found, "database_not_found")
    K(unsupported_database, "unsupported_database")
    K(unsupported_operation, "unsupported_operation")
    K(crate_deleted, "crate_deleted")
    K(crate_already_exists, "crate_already_exists")
    K(crate_invalid_parent, "crate_invalid_parent")
    K(crate_invalid_name, "crate_invalid_name")
    K(track_deleted, "track_deleted")
    K(invalid_track_snapshot, "invalid_track_snapshot")
    K(hot_cues_overflow, "hot_cues_overflow")
    K(loops_overflow, "loops_overflow")
    K(sqlite::sqlite_exception, "sqlite_error")
    K(std::invalid_argument, "invalid_argument")
    K(std::length_error, "length_or_alloc")
    K(std::bad_alloc, "length_or_alloc")
    K(std::out_of_range, "out_of_range")
    K(std::bad_optional_access, "bad_optional_access")
    K(std::logic_error, "logic_error")
    K(std::system_error, "system_error")
    K(std::runtime_error, "runtime_error")
#undef K
    return "std_exception";
}
}  // namespace djv

static void on_alarm(int)
{
    const char msg[] = "ub nontermination\n";
    (void)!write(1, msg, sizeof msg - 1);
    _exit(97);
}

int main(int argc, char** argv)
{
    using namespace djv;
    int watchdog = 10;
    if (const char* w = getenv("DJV_WATCHDOG")) watchdog = atoi(w);
    signal(SIGALRM, on_alarm);
    std::ios::sync_with_stdio(false);
    std::string line;
    while (std::getline(std::cin, line))
    {
        if (line.empty() || line[0] == '#')
        {
            if (line.rfind("#alias on", 0) == 0) djv::lib::S.alias = true;
            if (line.rfind("#alias off", 0) == 0) djv::lib::S.alias = false;
            std::cout << "skip\n" << std::flush;
            continue;
        }
        args_t a;
        {
            std::istringstream is(line);
            std::string tok;
            while (is >> tok) a.push_back(tok);
        }
        // a trailing `+alias` token on any line (normally the one that creates the library) switches handle
        // aliasing on for the rest of the script; tools/runner.py strips the token before the model sees the line
        djv::lib::S.sameref = false;
        if (!a.empty() && a.back() == "+sameref")
        {
            djv::lib::S.sameref = true;
            a.pop_back();
        }
        if (!a.empty() && a.back() == "+alias")
        {
            djv::lib::S.alias = true;
            a.pop_back();
        }
        std::string out;
        g_wrap.bad_region = 0;
        g_wrap.inflate_calls = 0;
        alarm(watchdog);
        try
        {
            auto it = registry().find(a[0]);
            if (it == registry().end())
                out = "bad-op unknown";
            else
                out = "ok " + it->second(a);
        }
        catch (const bad_command& e)
        {
            out = std::string("bad-op ") + e.what();
        }
        catch (const std::exception& e)
        {
            out = "throw " + classify(e);
            if (getenv("DJV_VERBOSE")) std::cerr << "exception: " << e.what() << "\n";
        }
        catch (...)
        {
            out = "ub nonstd_throw";
        }
        alarm(0);
        if (g_wrap.bad_region) out = "ub bad_zlib_region";
        // trim trailing space
        while (!out.empty() && out.back() == ' ') out.pop_back();
        std::cout << out << "\n" << std::flush;
    }
    return 0;
}
